// Per-configuration TU(s): REAL AVEL memory operations.  AVEL header first (self-containedness).
#ifndef MEM_PART
#define MEM_PART 0
#endif
#if MEM_PART == 10
#include <avel/Cache.hpp>
#else
#include <avel/Avel.hpp>
#endif

#include <cstring>
#include <cstdint>
#include <array>
#include <utility>
#include <type_traits>
#include "mem_iface.hpp"

#define NOINL __attribute__((noinline))
#define CAT2(a, b) a##b
#define CAT(a, b) CAT2(a, b)

#if MEM_PART != 10
namespace {

template<class V> inline V mk(const void* p) { typename V::primitive x; std::memcpy(&x, p, sizeof x); return V{x}; }
template<class V> inline void put(void* o, V v) { typename V::primitive x = avel::decay(v); std::memcpy(o, &x, sizeof x); }

template<class V> struct Idx { using type = avel::Vector<typename avel::to_index_type<typename V::scalar>::type, V::width>; };

template<class V, bool G> struct GS;   // gather/scatter present?

template<class V, unsigned N> struct CT {
    using T = typename V::scalar;
    static NOINL void load(const void* p, void* r) { put<V>(r, avel::load<V, N>(static_cast<const T*>(p))); }
    static NOINL void aligned_load(const void* p, void* r) { put<V>(r, avel::aligned_load<V, N>(static_cast<const T*>(p))); }
    static NOINL void store(void* p, const void* r) { avel::store<N>(static_cast<T*>(p), mk<V>(r)); }
    static NOINL void aligned_store(void* p, const void* r) { avel::aligned_store<N>(static_cast<T*>(p), mk<V>(r)); }
};
template<class V, unsigned N> struct CTG {
    using T = typename V::scalar; using I = typename Idx<V>::type;
    static NOINL void gather(const void* p, const void* ix, void* r) { put<V>(r, avel::gather<V, N>(static_cast<const T*>(p), mk<I>(ix))); }
    static NOINL void scatter(void* p, const void* r, const void* ix) { avel::scatter<N>(static_cast<T*>(p), mk<V>(r), mk<I>(ix)); }
};
template<class V, unsigned L> struct LN {
    using T = typename V::scalar;
    static NOINL void extract(const void* r, void* s) { T x = avel::extract<L>(mk<V>(r)); std::memcpy(s, &x, sizeof x); }
    static NOINL void insert(const void* r, const void* s, void* o) { T x; std::memcpy(&x, s, sizeof x); put<V>(o, avel::insert<L>(mk<V>(r), x)); }
};

// pointer-deduced compile-time gather, avel::gather<N>(T* ptr, index_vector): present only for some types (detected, not listed)
template<class...> struct Voider { using type = void; };
template<class V, unsigned N, class = void> struct HasDed : std::false_type {};
template<class V, unsigned N> struct HasDed<V, N, typename Voider<decltype(avel::gather<N>(std::declval<typename V::scalar*>(), std::declval<typename Idx<V>::type>()))>::type>
    : std::is_same<decltype(avel::gather<N>(std::declval<typename V::scalar*>(), std::declval<typename Idx<V>::type>())), V> {};
template<class V, unsigned N, bool = HasDed<V, N>::value> struct CTGD {
    static NOINL void gather(const void*, const void*, void*) {}
};
template<class V, unsigned N> struct CTGD<V, N, true> {
    using T = typename V::scalar; using I = typename Idx<V>::type;
    static NOINL void gather(const void* p, const void* ix, void* r) { put<V>(r, avel::gather<N>(static_cast<T*>(const_cast<void*>(p)), mk<I>(ix))); }
};

template<unsigned...> struct Seq {};
template<unsigned N, unsigned... S> struct Gen : Gen<N - 1, N - 1, S...> {};
template<unsigned... S> struct Gen<0, S...> { using type = Seq<S...>; };

template<class V, class S> struct Tab;
template<class V, unsigned... N> struct Tab<V, Seq<N...>> {
    static void (*const load[])(const void*, void*);
    static void (*const aligned_load[])(const void*, void*);
    static void (*const store[])(void*, const void*);
    static void (*const aligned_store[])(void*, const void*);
};
template<class V, unsigned... N> void (*const Tab<V, Seq<N...>>::load[])(const void*, void*) = {&CT<V, N>::load...};
template<class V, unsigned... N> void (*const Tab<V, Seq<N...>>::aligned_load[])(const void*, void*) = {&CT<V, N>::aligned_load...};
template<class V, unsigned... N> void (*const Tab<V, Seq<N...>>::store[])(void*, const void*) = {&CT<V, N>::store...};
template<class V, unsigned... N> void (*const Tab<V, Seq<N...>>::aligned_store[])(void*, const void*) = {&CT<V, N>::aligned_store...};

template<class V, class S> struct TabG;
template<class V, unsigned... N> struct TabG<V, Seq<N...>> {
    static void (*const gather[])(const void*, const void*, void*);
    static void (*const scatter[])(void*, const void*, const void*);
};
template<class V, unsigned... N> void (*const TabG<V, Seq<N...>>::gather[])(const void*, const void*, void*) = {&CTG<V, N>::gather...};
template<class V, class S> struct TabGD;
template<class V, unsigned... N> struct TabGD<V, Seq<N...>> { static void (*const gather[])(const void*, const void*, void*); };
template<class V, unsigned... N> void (*const TabGD<V, Seq<N...>>::gather[])(const void*, const void*, void*) = {&CTGD<V, N>::gather...};
template<class V, unsigned... N> void (*const TabG<V, Seq<N...>>::scatter[])(void*, const void*, const void*) = {&CTG<V, N>::scatter...};

template<class V, class S> struct TabL;
template<class V, unsigned... L> struct TabL<V, Seq<L...>> {
    static void (*const extract[])(const void*, void*);
    static void (*const insert[])(const void*, const void*, void*);
};
template<class V, unsigned... L> void (*const TabL<V, Seq<L...>>::extract[])(const void*, void*) = {&LN<V, L>::extract...};
template<class V, unsigned... L> void (*const TabL<V, Seq<L...>>::insert[])(const void*, const void*, void*) = {&LN<V, L>::insert...};

template<class V> struct RT {
    using T = typename V::scalar;
    using Arr = std::array<T, V::width>;
    static NOINL void load(const void* p, unsigned n, void* r) { put<V>(r, avel::load<V>(static_cast<const T*>(p), n)); }
    static NOINL void aligned_load(const void* p, unsigned n, void* r) { put<V>(r, avel::aligned_load<V>(static_cast<const T*>(p), n)); }
    static NOINL void store(void* p, const void* r, unsigned n) { avel::store(static_cast<T*>(p), mk<V>(r), n); }
    static NOINL void aligned_store(void* p, const void* r, unsigned n) { avel::aligned_store(static_cast<T*>(p), mk<V>(r), n); }
    static NOINL void load_def(const void* p, void* r) { put<V>(r, avel::load<V>(static_cast<const T*>(p))); }
    static NOINL void store_def(void* p, const void* r) { avel::store(static_cast<T*>(p), mk<V>(r)); }
    static NOINL void aligned_load_def(const void* p, void* r) { put<V>(r, avel::aligned_load<V>(static_cast<const T*>(p))); }
    static NOINL void aligned_store_def(void* p, const void* r) { avel::aligned_store(static_cast<T*>(p), mk<V>(r)); }
    static NOINL void from_array(const void* a, void* r) { put<V>(r, V{*static_cast<const Arr*>(a)}); }
    static NOINL void to_array(const void* r, void* a) { Arr x = avel::to_array(mk<V>(r)); std::memcpy(a, x.data(), sizeof(T) * V::width); }
};
template<class V> struct RTG {
    using T = typename V::scalar; using I = typename Idx<V>::type;
    static NOINL void gather(const void* p, const void* ix, unsigned n, void* r) { put<V>(r, avel::gather<V>(static_cast<const T*>(p), mk<I>(ix), n)); }
    static NOINL void scatter(void* p, const void* r, const void* ix, unsigned n) { avel::scatter(static_cast<T*>(p), mk<V>(r), mk<I>(ix), n); }
    static NOINL void gather_def(const void* p, const void* ix, void* r) { put<V>(r, avel::gather<V>(static_cast<const T*>(p), mk<I>(ix))); }
    static NOINL void scatter_def(void* p, const void* r, const void* ix) { avel::scatter(static_cast<T*>(p), mk<V>(r), mk<I>(ix)); }
};

#define SEQ_N(V) typename Gen<V::width + 1>::type
#define SEQ_L(V) typename Gen<V::width>::type
#define COMMON(V, NAME, FL) NAME, V::width, (unsigned)sizeof(typename V::scalar), FL
#define ENTRY_G(V, NAME, FL) {COMMON(V, NAME, FL), true, (unsigned)(V::width == 1 ? sizeof(typename V::scalar) : sizeof(typename V::scalar) * V::width), \
    &RT<V>::load, &RT<V>::aligned_load, &RT<V>::store, &RT<V>::aligned_store, &RTG<V>::gather, &RTG<V>::scatter, \
    Tab<V, SEQ_N(V)>::load, Tab<V, SEQ_N(V)>::aligned_load, Tab<V, SEQ_N(V)>::store, Tab<V, SEQ_N(V)>::aligned_store, \
    TabG<V, SEQ_N(V)>::gather, (HasDed<V, 1>::value ? TabGD<V, SEQ_N(V)>::gather : nullptr), TabG<V, SEQ_N(V)>::scatter, &RT<V>::load_def, &RT<V>::store_def, \
    &RT<V>::aligned_load_def, &RT<V>::aligned_store_def, &RTG<V>::gather_def, &RTG<V>::scatter_def, &RT<V>::from_array, &RT<V>::to_array, \
    TabL<V, SEQ_L(V)>::extract, TabL<V, SEQ_L(V)>::insert},
#define ENTRY_N(V, NAME, FL) {COMMON(V, NAME, FL), false, (unsigned)(V::width == 1 ? sizeof(typename V::scalar) : sizeof(typename V::scalar) * V::width), \
    &RT<V>::load, &RT<V>::aligned_load, &RT<V>::store, &RT<V>::aligned_store, nullptr, nullptr, \
    Tab<V, SEQ_N(V)>::load, Tab<V, SEQ_N(V)>::aligned_load, Tab<V, SEQ_N(V)>::store, Tab<V, SEQ_N(V)>::aligned_store, \
    nullptr, nullptr, nullptr, &RT<V>::load_def, &RT<V>::store_def, &RT<V>::aligned_load_def, &RT<V>::aligned_store_def, nullptr, nullptr, &RT<V>::from_array, &RT<V>::to_array, \
    TabL<V, SEQ_L(V)>::extract, TabL<V, SEQ_L(V)>::insert},

#if defined(AVEL_SSE2)
#define W128(X) X
#else
#define W128(X)
#endif
#if defined(AVEL_AVX2)
#define W256(X) X
#else
#define W256(X)
#endif
#if defined(AVEL_AVX512F)
#define W512(X) X
#else
#define W512(X)
#endif
#if defined(AVEL_AVX512BW)
#define W512BW(X) X
#else
#define W512BW(X)
#endif

const MType table[] = {
#if MEM_PART == 0
    ENTRY_N(avel::vec1x8u, "vec1x8u", false) W128(ENTRY_N(avel::vec16x8u, "vec16x8u", false)) W256(ENTRY_N(avel::vec32x8u, "vec32x8u", false)) W512BW(ENTRY_N(avel::vec64x8u, "vec64x8u", false))
#elif MEM_PART == 1
    ENTRY_N(avel::vec1x8i, "vec1x8i", false) W128(ENTRY_N(avel::vec16x8i, "vec16x8i", false)) W256(ENTRY_N(avel::vec32x8i, "vec32x8i", false)) W512BW(ENTRY_N(avel::vec64x8i, "vec64x8i", false))
#elif MEM_PART == 2
    ENTRY_N(avel::vec1x16u, "vec1x16u", false) W128(ENTRY_N(avel::vec8x16u, "vec8x16u", false)) W256(ENTRY_N(avel::vec16x16u, "vec16x16u", false)) W512BW(ENTRY_N(avel::vec32x16u, "vec32x16u", false))
#elif MEM_PART == 3
    ENTRY_N(avel::vec1x16i, "vec1x16i", false) W128(ENTRY_N(avel::vec8x16i, "vec8x16i", false)) W256(ENTRY_N(avel::vec16x16i, "vec16x16i", false)) W512BW(ENTRY_N(avel::vec32x16i, "vec32x16i", false))
#elif MEM_PART == 4
    ENTRY_G(avel::vec1x32u, "vec1x32u", false) W128(ENTRY_G(avel::vec4x32u, "vec4x32u", false)) W256(ENTRY_G(avel::vec8x32u, "vec8x32u", false)) W512(ENTRY_G(avel::vec16x32u, "vec16x32u", false))
#elif MEM_PART == 5
    ENTRY_G(avel::vec1x32i, "vec1x32i", false) W128(ENTRY_G(avel::vec4x32i, "vec4x32i", false)) W256(ENTRY_G(avel::vec8x32i, "vec8x32i", false)) W512(ENTRY_G(avel::vec16x32i, "vec16x32i", false))
#elif MEM_PART == 6
    ENTRY_G(avel::vec1x64u, "vec1x64u", false) W128(ENTRY_G(avel::vec2x64u, "vec2x64u", false)) W256(ENTRY_G(avel::vec4x64u, "vec4x64u", false)) W512(ENTRY_G(avel::vec8x64u, "vec8x64u", false))
#elif MEM_PART == 7
    ENTRY_G(avel::vec1x64i, "vec1x64i", false) W128(ENTRY_G(avel::vec2x64i, "vec2x64i", false)) W256(ENTRY_G(avel::vec4x64i, "vec4x64i", false)) W512(ENTRY_G(avel::vec8x64i, "vec8x64i", false))
#elif MEM_PART == 8
    ENTRY_G(avel::vec1x32f, "vec1x32f", true) W128(ENTRY_G(avel::vec4x32f, "vec4x32f", true)) W256(ENTRY_G(avel::vec8x32f, "vec8x32f", true)) W512(ENTRY_G(avel::vec16x32f, "vec16x32f", true))
#elif MEM_PART == 9
    ENTRY_G(avel::vec1x64f, "vec1x64f", true) W128(ENTRY_G(avel::vec2x64f, "vec2x64f", true)) W256(ENTRY_G(avel::vec4x64f, "vec4x64f", true)) W512(ENTRY_G(avel::vec8x64f, "vec8x64f", true))
#endif
};
} // namespace
extern "C" const MType* CAT(mem_registry_part, MEM_PART)(std::size_t* n) { *n = sizeof table / sizeof table[0]; return table; }

#else // MEM_PART == 10: prefetch
namespace {
struct B64 { unsigned char b[64]; };
struct B72 { unsigned char b[72]; }; struct B200 { std::uint32_t w[50]; }; struct B4096 { double d[512]; };   // element types larger than any cache line
template<int W, int L> struct PF {
    static NOINL void untyped(const void* p, std::size_t n) { if (W) avel::prefetch_write<(avel::Cache_level)L>(p, n); else avel::prefetch_read<(avel::Cache_level)L>(p, n); }
    template<class T> static NOINL void typed(const void* p, std::size_t n) {
        if (W) avel::prefetch_write<(avel::Cache_level)L, T>(static_cast<const T*>(p), n); else avel::prefetch_read<(avel::Cache_level)L, T>(static_cast<const T*>(p), n); }
};
NOINL void pr_def(const void* p) { avel::prefetch_read(p); }
NOINL void pw_def(const void* p) { avel::prefetch_write(p); }
#define PFL(W, L) {&PF<W, L>::typed<unsigned char>, &PF<W, L>::typed<std::uint32_t>, &PF<W, L>::typed<double>, &PF<W, L>::typed<B64>, &PF<W, L>::typed<B72>, &PF<W, L>::typed<B200>, &PF<W, L>::typed<B4096>}
const PfOps pf = {
    {{&PF<0, 0>::untyped, &PF<0, 1>::untyped, &PF<0, 2>::untyped}, {&PF<1, 0>::untyped, &PF<1, 1>::untyped, &PF<1, 2>::untyped}},
    {{PFL(0, 0), PFL(0, 1), PFL(0, 2)}, {PFL(1, 0), PFL(1, 1), PFL(1, 2)}},
    {&pr_def, &pw_def},
    {(unsigned)avel::cache_line_sizes[0], (unsigned)avel::cache_line_sizes[1], (unsigned)avel::cache_line_sizes[2]}
};
}
extern "C" const PfOps* mem_prefetch_ops() { return &pf; }
#endif

#ifndef VERIF_MEM_IFACE_HPP
#define VERIF_MEM_IFACE_HPP
#include <cstddef>
#include <cstdint>
// One entry per AVEL vector type available in the configuration.  Registers are passed as raw
// little-endian lane bytes (width*elem bytes) in harness memory; p points into the simulated window.
struct MType {
    const char* name; unsigned width, elem; bool is_float, has_gather;
    unsigned vec_align;                       // alignof the vector's natural aligned access (width*elem, 1 elem for width-1)
    void (*load)(const void* p, unsigned n, void* reg);
    void (*aligned_load)(const void* p, unsigned n, void* reg);
    void (*store)(void* p, const void* reg, unsigned n);
    void (*aligned_store)(void* p, const void* reg, unsigned n);
    void (*gather)(const void* p, const void* idx, unsigned n, void* reg);
    void (*scatter)(void* p, const void* reg, const void* idx, unsigned n);
    // compile-time-count forms: tables indexed by N in 0..width
    void (*const* load_ct)(const void* p, void* reg);
    void (*const* aligned_load_ct)(const void* p, void* reg);
    void (*const* store_ct)(void* p, const void* reg);
    void (*const* aligned_store_ct)(void* p, const void* reg);
    void (*const* gather_ct)(const void* p, const void* idx, void* reg);
    // gather<N>(ptr, idx) with the vector type DEDUCED from the pointer type: a second gather family that only some types have (null otherwise)
    void (*const* gather_ded)(const void* p, const void* idx, void* reg);
    void (*const* scatter_ct)(void* p, const void* reg, const void* idx);
    // default forms load<V>(p), store(p, v) ... (N defaults to width)
    void (*load_def)(const void* p, void* reg);
    void (*store_def)(void* p, const void* reg);
    // aligned_load<V>(p), aligned_store(p, v), gather<V>(p, idx), scatter(p, v, idx): the overloads without a count
    void (*aligned_load_def)(const void* p, void* reg);
    void (*aligned_store_def)(void* p, const void* reg);
    void (*gather_def)(const void* p, const void* idx, void* reg);
    void (*scatter_def)(void* p, const void* reg, const void* idx);
    void (*from_array)(const void* arr, void* reg);
    void (*to_array)(const void* reg, void* arr);
    void (*const* extract)(const void* reg, void* scalar);            // indexed by I in 0..width-1
    void (*const* insert)(const void* reg, const void* scalar, void* out);
};
struct PfOps {   // prefetch: [write][level] ; typed overloads by element size
    void (*untyped[2][3])(const void* p, std::size_t n);
    void (*typed[2][3][7])(const void* p, std::size_t n);   // element sizes 1, 4, 8, 64 and - larger than any cache line - 72, 200, 4096
    void (*untyped_default[2])(const void* p);   // prefetch_read(p) with defaulted level and n
    unsigned line[3];
};
extern "C" {
const MType* mem_registry_part0(std::size_t*); const MType* mem_registry_part1(std::size_t*); const MType* mem_registry_part2(std::size_t*);
const MType* mem_registry_part3(std::size_t*); const MType* mem_registry_part4(std::size_t*); const MType* mem_registry_part5(std::size_t*);
const MType* mem_registry_part6(std::size_t*); const MType* mem_registry_part7(std::size_t*); const MType* mem_registry_part8(std::size_t*);
const MType* mem_registry_part9(std::size_t*);
const PfOps* mem_prefetch_ops();
}
#endif

// SimMem: the memory an AVEL memory operation sees is the simulated, fault-injected component:
// page protections around the addressed range (RW / RO / NONE / hole), placement and alignment,
// stale stack and register contents, debug-register watch windows next to the range, and a
// neighbour writer that runs between two machine instructions of the call (trap flag).
// Oracles after every step: registers and window bytes equal the byte-exact reference model
// (C08), no fault / no watch hit / no byte outside the addressed elements changed / no neighbour
// update lost (C09), prefetch: no signal and nothing changed (C20).
#include "../core/core.hpp"
#include "mem_iface.hpp"

#include <csetjmp>
#include <array>
#include <csignal>
#include <cerrno>
#include <sys/mman.h>
#include <sys/syscall.h>
#include <sys/ioctl.h>
#include <linux/perf_event.h>
#include <linux/hw_breakpoint.h>
#include <ucontext.h>
#include <pthread.h>
#include <sys/time.h>

using namespace sim;

extern "C" void sim_poison_vector_regs(const void* garbage64, int level);   // mem_poison.S

namespace {

const std::uintptr_t RES_BASE = 0x520000000000ull;
const std::size_t GiB = 1ull << 30;
const std::size_t RES_SIZE = 21 * GiB;
const std::size_t PG = 4096;
const unsigned WPAGES = 8;
const std::uintptr_t WIN = RES_BASE + 12 * GiB - 4 * PG;        // guest view of the window; the boundary between its pages 3 and 4 is a multiple of 2^32 (address arithmetic done in 32 bits shows there)
const std::size_t WBYTES = WPAGES * PG;
const std::uintptr_t STACK_BASE = 0x530000000000ull;            // fixed engine stack: replay-stable addresses
const std::size_t STACK_SIZE = 16 << 20;

enum PState : char { P_RW = 'W', P_RO = 'R', P_NONE = 'N', P_HOLE = 'H' };

struct FaultRec { std::uintptr_t addr; std::uintptr_t rip; unsigned char code[12]; bool write; bool gp; };

// state shared with signal handlers
int g_memfd = -1;
unsigned char* g_host = nullptr;               // always-RW alias of the window
char g_cur[WPAGES];                            // protections currently applied to the guest view
FaultRec g_faults[8]; volatile int g_nfaults = 0;
std::uintptr_t g_opened[16]; volatile int g_nopened = 0;   // reservation pages opened by the handler during this step
sigjmp_buf* volatile g_jmp = nullptr;
volatile int g_abort_reason = 0;               // 1 GP fault, 2 outside reservation, 3 fault storm
// trap-flag neighbour writer
volatile long g_tf_count = 0; volatile long g_tf_k = -1; volatile int g_tf_fired = 0;
struct NeighWrite { std::size_t off; unsigned len; unsigned char val[64]; };
NeighWrite g_neigh[2]; int g_nneigh = 0;

void guest_protect(unsigned page, char st) {
    void* a = (void*)(WIN + page * PG);
    if (st == P_HOLE) { munmap(a, PG); }
    else {
        if (g_cur[page] == P_HOLE) mmap(a, PG, PROT_NONE, MAP_SHARED | MAP_FIXED, g_memfd, (off_t)(page * PG));
        mprotect(a, PG, st == P_RW ? PROT_READ | PROT_WRITE : st == P_RO ? PROT_READ : PROT_NONE);
    }
    g_cur[page] = st;
}

void on_segv(int sig, siginfo_t* si, void* ucv) {
    ucontext_t* uc = (ucontext_t*)ucv;
    std::uintptr_t a = (std::uintptr_t)si->si_addr, rip = (std::uintptr_t)uc->uc_mcontext.gregs[REG_RIP];
    bool gp = (si->si_code == SI_KERNEL) || (sig == SIGSEGV && si->si_code != SEGV_MAPERR && si->si_code != SEGV_ACCERR) || sig == SIGBUS;
    const bool other_signal = sig == SIGFPE || sig == SIGILL;      // e.g. a division by a zero count: not resumable, the operation is aborted
    if (!g_jmp) { const char m[] = "SimMem: fault outside an AVEL operation\n"; (void)!write(2, m, sizeof m - 1); signal(sig, SIG_DFL); raise(sig); return; }
    int n = g_nfaults;
    if (n < 8) {
        FaultRec& f = g_faults[n]; f.addr = a; f.rip = rip; f.gp = gp; f.write = (uc->uc_mcontext.gregs[REG_ERR] >> 1) & 1;
        std::memcpy(f.code, (const void*)rip, sizeof f.code);      // RIP is in our own text: readable
        g_nfaults = n + 1;
    }
    if (other_signal) { g_abort_reason = sig == SIGFPE ? 5 : 6; siglongjmp(*g_jmp, 1); }
    if (gp) { g_abort_reason = 1; siglongjmp(*g_jmp, 1); }
    if (a < RES_BASE || a >= RES_BASE + RES_SIZE) { g_abort_reason = 2; siglongjmp(*g_jmp, 1); }
    if (n >= 7 || g_nopened >= 15) { g_abort_reason = 3; siglongjmp(*g_jmp, 1); }
    // make that single page accessible and resume, so the operation completes
    std::uintptr_t pa = a & ~(PG - 1);
    if (pa >= WIN && pa < WIN + WBYTES) {
        unsigned page = (unsigned)((pa - WIN) / PG);
        if (g_cur[page] == P_HOLE) mmap((void*)pa, PG, PROT_READ | PROT_WRITE, MAP_SHARED | MAP_FIXED, g_memfd, (off_t)(page * PG));
        else mprotect((void*)pa, PG, PROT_READ | PROT_WRITE);
    } else mprotect((void*)pa, PG, PROT_READ | PROT_WRITE);
    g_opened[g_nopened] = pa; g_nopened = g_nopened + 1;
}

void on_trap(int, siginfo_t*, void* ucv) {
    ucontext_t* uc = (ucontext_t*)ucv;
    long c = g_tf_count; g_tf_count = c + 1;
    if (c == g_tf_k) {
        for (int i = 0; i < g_nneigh; ++i) std::memcpy(g_host + g_neigh[i].off, g_neigh[i].val, g_neigh[i].len);
        g_tf_fired = 1;
    }
    if (c > 20000) uc->uc_mcontext.gregs[REG_EFL] &= ~0x100ll;   // runaway guard
}

void on_alarm_mem(int sig) {
    if (g_jmp) { g_abort_reason = 4; siglongjmp(*g_jmp, 1); }
    sim::on_alarm(sig);
}

inline void tf_on() { asm volatile("pushfq\n\torq $0x100,(%%rsp)\n\tpopfq" ::: "memory", "cc"); }
inline void tf_off() { asm volatile("pushfq\n\tandq $~0x100,(%%rsp)\n\tpopfq" ::: "memory", "cc"); }

// stale-stack poison: fills 16 KiB below the caller's frame with seeded non-zero bytes
__attribute__((noinline)) void poison_stack(unsigned seed) {
    volatile unsigned char buf[16384];
    for (unsigned i = 0; i < sizeof buf; ++i) buf[i] = (unsigned char)((seed * 167u + i * 31u + (i >> 7)) | 0x11u);
    asm volatile("" :: "r"(buf) : "memory");
}

__attribute__((noinline)) void poison_stack_deep(unsigned seed) {
    volatile unsigned char buf[98304];
    for (unsigned i = 0; i < sizeof buf; ++i) buf[i] = (unsigned char)((seed * 59u + i * 13u + (i >> 9)) | 0x21u);
    asm volatile("" :: "r"(buf) : "memory");
}

long perf_open(std::uintptr_t addr, unsigned len, int group) {
    struct perf_event_attr pe; std::memset(&pe, 0, sizeof pe);
    pe.type = PERF_TYPE_BREAKPOINT; pe.size = sizeof pe; pe.bp_type = HW_BREAKPOINT_RW; pe.bp_addr = addr;
    pe.bp_len = len == 8 ? HW_BREAKPOINT_LEN_8 : len == 4 ? HW_BREAKPOINT_LEN_4 : len == 2 ? HW_BREAKPOINT_LEN_2 : HW_BREAKPOINT_LEN_1;
    pe.disabled = 1; pe.exclude_kernel = 1; pe.exclude_hv = 1;
    return syscall(SYS_perf_event_open, &pe, 0, -1, group, 0);
}

struct TypeInfo { const MType* t; };

enum OpKind { OP_LOAD, OP_STORE, OP_GATHER, OP_SCATTER, OP_FROMARR, OP_TOARR, OP_EXTRACT, OP_INSERT, OP_PREFETCH, OP_SETREG };

unsigned char init_byte(unsigned memseed, std::size_t off) { return (unsigned char)((memseed * 73u + off * 11u + (off >> 9) * 5u) | 0x80u); }
void tag_bytes(std::uint64_t tag, unsigned char* out, unsigned n) { for (unsigned i = 0; i < n; ++i) out[i] = (unsigned char)(((tag + 1) * 0x9Du + i * 0x35u + ((tag >> 8) & 0xff)) | 1u); }
// value classes: element values a defect could single out (zero, all ones, sign bit only, small positive, small negative).
// cls 0 = unique tags; otherwise 8-byte groups are replaced by the class value according to the tag's bits, so that
// special and ordinary elements are mixed within one vector whatever the element size.
// class 6: per-ELEMENT special values for element size es: 0, all ones, sign bit only (INT_MIN / -0.0), largest positive, 1, 0x7F..,
// quiet NaN with a payload, 0x80 in the low byte only; every second element keeps its unique tag
void element_specials(std::uint64_t tag, unsigned es, unsigned char* out, unsigned n) {
    tag_bytes(tag, out, n);
    for (unsigned e = 0; (e + 1) * es <= n; ++e) {
        unsigned sel = (unsigned)((tag >> (e % 13)) + e * 5) % 16; unsigned char* q = out + e * es;
        if (sel >= 8) continue;
        std::memset(q, 0, es);
        switch (sel) {
            case 0: break;
            case 1: std::memset(q, 0xFF, es); break;
            case 2: q[es - 1] = 0x80; break;
            case 3: std::memset(q, 0xFF, es); q[es - 1] = 0x7F; break;
            case 4: q[0] = 1; break;
            case 5: q[0] = 0x7F; break;
            case 6: if (es >= 4) { q[es - 1] = 0x7F; q[es - 2] = es == 4 ? 0xC0 : 0xF8; q[0] = 0x01; } else q[es - 1] = 0x7F; break;
            default: q[0] = 0x80; break;
        }
    }
}
// one special element value (es bytes): 0 zero, 1 all ones, 2 sign bit only (INT_MIN / -0.0), 3 largest positive, 4 one,
// 5 quiet NaN with payload, 6 SIGNALLING NaN with payload, 7 smallest subnormal pattern with the sign bit
void special_element(unsigned spec, unsigned es, unsigned char* q) {
    std::memset(q, 0, es);
    switch (spec % 8) {
        case 0: break; case 1: std::memset(q, 0xFF, es); break; case 2: q[es - 1] = 0x80; break;
        case 3: std::memset(q, 0xFF, es); q[es - 1] = 0x7F; break; case 4: q[0] = 1; break;
        case 5: q[es - 1] = 0x7F; if (es >= 4) { q[es - 2] = es == 4 ? 0xC0 : 0xF8; q[0] = 0x03; } break;
        case 6: q[es - 1] = 0x7F; if (es >= 4) { q[es - 2] = es == 4 ? 0x80 : 0xF0; q[1] = 0x02; q[0] = 0x03; } break;
        default: q[0] = 1; q[es - 1] = 0x80; break;
    }
}
void class_bytes(std::uint64_t tag, unsigned cls, unsigned char* out, unsigned n, unsigned es = 4) {
    if (cls == 6) { element_specials(tag, es ? es : 4, out, n); return; }
    tag_bytes(tag, out, n);
    if (!cls) return;
    for (unsigned g = 0; g * 8 < n; ++g) {
        unsigned sel = (unsigned)((tag >> (g % 16)) + g * cls) % 6;
        unsigned char* q = out + g * 8; unsigned m = n - g * 8 < 8 ? n - g * 8 : 8;
        switch (cls == 5 ? sel : cls) {
            case 1: std::memset(q, 0x00, m); break;
            case 2: std::memset(q, 0xFF, m); break;
            case 3: for (unsigned i = 0; i < m; ++i) q[i] = 0x80; break;            // sign bit of every 8-bit lane; 0x8080.. for wider lanes
            case 4: for (unsigned i = 0; i < m; ++i) q[i] = (i % 2) ? 0x00 : (unsigned char)(1 + g); break;   // small positive 16-bit-ish values, zero upper bytes
            default: break;
        }
    }
}

struct MemEngine : Engine {
    std::string prop, tier; std::vector<const MType*> types; const PfOps* pf = nullptr;
    unsigned char model[WBYTES];
    alignas(64) unsigned char areg[4][64]; alignas(64) unsigned char mreg[4][64];
    alignas(64) unsigned char idxbuf[64]; alignas(64) unsigned char scratch[128]; alignas(64) unsigned char garbage[64];
    bool watch_ok = false; std::string calib; int cpu_level = 0;   // 0 sse, 1 avx, 2 avx512f, 3 avx512bw
    int call_limit_s = 3;
    RunResult* rr = nullptr; Stats* st = nullptr; std::size_t last_pf_end = (std::size_t)-1; int last_pf_key = -1;

    const char* name() const override { return "mem"; }

    std::string init(const std::string& p, const std::string& t) override {
        prop = p; tier = t;
        typedef const MType* (*PF)(std::size_t*);
        PF parts[] = {mem_registry_part0, mem_registry_part1, mem_registry_part2, mem_registry_part3, mem_registry_part4, mem_registry_part5, mem_registry_part6, mem_registry_part7, mem_registry_part8, mem_registry_part9};
        for (PF f : parts) { std::size_t k; const MType* tb = f(&k); for (std::size_t i = 0; i < k; ++i) types.push_back(&tb[i]); }
        pf = mem_prefetch_ops();
        if (mmap((void*)RES_BASE, RES_SIZE, PROT_NONE, MAP_PRIVATE | MAP_ANONYMOUS | MAP_NORESERVE | MAP_FIXED_NOREPLACE, -1, 0) != (void*)RES_BASE) return "cannot reserve SimMem address space";
        g_memfd = (int)syscall(SYS_memfd_create, "simmem-window", 0);
        if (g_memfd < 0 || ftruncate(g_memfd, (off_t)WBYTES) != 0) return "memfd_create failed";
        if (mmap((void*)WIN, WBYTES, PROT_READ | PROT_WRITE, MAP_SHARED | MAP_FIXED, g_memfd, 0) != (void*)WIN) return "cannot map guest window";
        g_host = (unsigned char*)mmap(nullptr, WBYTES, PROT_READ | PROT_WRITE, MAP_SHARED, g_memfd, 0);
        if (g_host == MAP_FAILED) return "cannot map host window";
        for (unsigned i = 0; i < WPAGES; ++i) g_cur[i] = P_RW;
        struct sigaction sa; std::memset(&sa, 0, sizeof sa); sa.sa_sigaction = on_segv; sa.sa_flags = SA_SIGINFO | SA_NODEFER;
        sigaction(SIGSEGV, &sa, nullptr); sigaction(SIGBUS, &sa, nullptr); sigaction(SIGFPE, &sa, nullptr); sigaction(SIGILL, &sa, nullptr);
        sa.sa_sigaction = on_trap; sa.sa_flags = SA_SIGINFO; sigaction(SIGTRAP, &sa, nullptr);
        { struct sigaction al; std::memset(&al, 0, sizeof al); al.sa_handler = on_alarm_mem; al.sa_flags = SA_NODEFER; sigaction(SIGALRM, &al, nullptr); sigaction(SIGPROF, &al, nullptr); }
        cpu_level = __builtin_cpu_supports("avx512bw") ? 3 : __builtin_cpu_supports("avx512f") ? 2 : __builtin_cpu_supports("avx") ? 1 : 0;
        calibrate();
        build_sweep();
        return "";
    }

    //------------------------------------------------------------ watch-window calibration
    // For each instruction class: does a data breakpoint on a masked-off element count, and does the
    // same element on a PROT_NONE page fault?  The watch oracle is only trusted where both agree.
    void calibrate() {
        long fd = perf_open(WIN + PG - 8, 8, -1);
        if (fd < 0) { calib = "perf_event_open refused (errno " + std::to_string(errno) + "): watch oracle inactive"; watch_ok = false; return; }
        close((int)fd);
        struct Cls { const char* name; int need; } cls[] = {{"plain_load8", 0}, {"maskmovdqu_off", 0}, {"vpmaskmov_off", 1}, {"kmasked_load_off", 2}, {"kmasked_store_off", 2}};
        bool all_agree = true; calib = "";
        for (auto& c : cls) {
            if (cpu_level < c.need) continue;
            // element under test: 8 bytes at page1 start; instruction addresses [page0 end-8, page1 start+8) with the upper half masked off
            bool counted = false, faulted = false;
            for (int pass = 0; pass < 2; ++pass) {
                std::uintptr_t target = WIN + PG;             // first byte of page 1
                if (pass == 1) guest_protect(1, P_NONE);
                long w = -1; if (pass == 0) { w = perf_open(target, 8, -1); if (w < 0) { all_agree = false; break; } ioctl((int)w, PERF_EVENT_IOC_RESET, 0); ioctl((int)w, PERF_EVENT_IOC_ENABLE, 0); }
                sigjmp_buf jb; g_nfaults = 0; g_nopened = 0; g_abort_reason = 0;
                if (sigsetjmp(jb, 1) == 0) { g_jmp = &jb; raw_class(c.name, target); }
                g_jmp = nullptr;
                if (pass == 0) { ioctl((int)w, PERF_EVENT_IOC_DISABLE, 0); std::uint64_t cnt = 0; if (read((int)w, &cnt, 8) != 8) cnt = 0; close((int)w); counted = cnt > 0; }
                else { faulted = g_nfaults > 0; restore_opened(); guest_protect(1, P_RW); }
            }
            calib += std::string(c.name) + ":watch=" + (counted ? "1" : "0") + ",fault=" + (faulted ? "1" : "0") + ";";
            if (counted != faulted) all_agree = false;
        }
        watch_ok = all_agree;
    }
    static void raw_class(const char* name, std::uintptr_t target) {
        // each snippet touches [target-8, target) for real and has [target, target+8) masked off (except plain_load8)
        std::uintptr_t base = target - 8;
        if (!std::strcmp(name, "plain_load8")) { asm volatile("movq (%0), %%rax" :: "r"(target) : "rax", "memory"); }
        else if (!std::strcmp(name, "maskmovdqu_off")) {
            alignas(16) static const unsigned char m[16] = {0x80, 0x80, 0x80, 0x80, 0x80, 0x80, 0x80, 0x80, 0, 0, 0, 0, 0, 0, 0, 0};
            asm volatile("movdqa (%1), %%xmm1\n\tpxor %%xmm0, %%xmm0\n\tmaskmovdqu %%xmm1, %%xmm0" :: "D"(base), "r"(m) : "xmm0", "xmm1", "memory");
        } else if (!std::strcmp(name, "vpmaskmov_off")) {
            alignas(16) static const unsigned char m[16] = {0xff, 0xff, 0xff, 0xff, 0xff, 0xff, 0xff, 0xff, 0, 0, 0, 0, 0, 0, 0, 0};
            asm volatile("vmovdqa (%1), %%xmm1\n\tvpmaskmovd (%0), %%xmm1, %%xmm0" :: "r"(base), "r"(m) : "xmm0", "xmm1", "memory");
        } else if (!std::strcmp(name, "kmasked_load_off")) {
            asm volatile("movl $3, %%eax\n\tkmovw %%eax, %%k1\n\tvmovdqu32 (%0), %%zmm0%{%%k1%}%{z%}" :: "r"(base) : "rax", "memory");
        } else if (!std::strcmp(name, "kmasked_store_off")) {
            asm volatile("movl $3, %%eax\n\tkmovw %%eax, %%k1\n\tvpxord %%zmm0, %%zmm0, %%zmm0\n\tvmovdqu32 (%0), %%zmm0%{%%k1%}%{z%}\n\tvmovdqu32 %%zmm0, (%0)%{%%k1%}" :: "r"(base) : "rax", "memory");
        }
    }

    void restore_opened() {
        for (int i = 0; i < g_nopened; ++i) {
            std::uintptr_t pa = g_opened[i];
            if (pa >= WIN && pa < WIN + WBYTES) { unsigned page = (unsigned)((pa - WIN) / PG); char want = g_cur[page]; if (want == P_HOLE) { munmap((void*)pa, PG); } else { g_cur[page] = P_RW; guest_protect(page, want); } }
            else { mprotect((void*)pa, PG, PROT_NONE); madvise((void*)pa, PG, MADV_DONTNEED); }
        }
        g_nopened = 0;
    }

    //------------------------------------------------------------ helpers
    const MType* find_type(const std::string& n) { for (auto t : types) if (n == t->name) return t; return nullptr; }
    void apply_pages(const std::string& pages) {
        for (unsigned i = 0; i < WPAGES; ++i) { char want = i < pages.size() ? pages[i] : 'W'; if (want != 'W' && want != 'R' && want != 'N' && want != 'H') want = 'W'; if (g_cur[i] != want) guest_protect(i, want); }
    }
    static bool readable(char s) { return s == 'W' || s == 'R'; }
    static char page_state(const std::string& pages, std::size_t off) { std::size_t pg = off / PG; return pg < pages.size() ? pages[pg] : 'W'; }
    bool range_ok(const std::string& pages, std::size_t off, std::size_t len, bool write) {
        if (len == 0) return true; if (off + len > WBYTES) return false;
        for (std::size_t pgi = off / PG; pgi <= (off + len - 1) / PG; ++pgi) { char s = pgi < pages.size() ? pages[pgi] : 'W'; if (write ? s != 'W' : !readable(s)) return false; }
        return true;
    }
    static std::string hexbytes(const unsigned char* b, unsigned n) { static const char* H = "0123456789abcdef"; std::string s; for (unsigned i = 0; i < n; ++i) { s += H[b[i] >> 4]; s += H[b[i] & 15]; } return s; }
    static const char* mnemonic(const unsigned char* c) {
        // just enough decoding to name the byte-masked store that faults on masked-off bytes
        if (c[0] == 0x66 && c[1] == 0x0f && c[2] == 0xf7) return "maskmovdqu";
        if (c[0] == 0xc5 && (c[1] & 0x7f) == 0x79 && c[2] == 0xf7) return "vmaskmovdqu";
        if (c[0] == 0xc4 && c[3] == 0xf7) return "vmaskmovdqu";
        return "other";
    }

    //------------------------------------------------------------ one memory operation
    struct Call {
        const MType* t = nullptr; OpKind kind = OP_LOAD; std::string form; unsigned n = 0, r = 0, lane = 0;
        std::size_t p = 0;                         // byte offset of the pointer argument in the window (may be >= WBYTES for wild pointers via praw)
        std::uintptr_t praw = 0; bool use_raw = false;
        std::vector<std::int64_t> idx;
        // prefetch
        int pw = 0, plevel = 0, ptyped = -1; std::size_t pn = 0; bool pdef = false;
    };

    void invoke(const Call& c) {
        void* gp = c.use_raw ? (void*)c.praw : (void*)(WIN + c.p); const MType* t = c.t;
        switch (c.kind) {
            case OP_LOAD:
                if (c.form == "rt") t->load(gp, c.n, areg[c.r]); else if (c.form == "art") t->aligned_load(gp, c.n, areg[c.r]);
                else if (c.form == "ct") t->load_ct[c.n](gp, areg[c.r]); else if (c.form == "act") t->aligned_load_ct[c.n](gp, areg[c.r]);
                else if (c.form == "adef") t->aligned_load_def(gp, areg[c.r]); else t->load_def(gp, areg[c.r]);
                break;
            case OP_STORE:
                if (c.form == "rt") t->store(gp, areg[c.r], c.n); else if (c.form == "art") t->aligned_store(gp, areg[c.r], c.n);
                else if (c.form == "ct") t->store_ct[c.n](gp, areg[c.r]); else if (c.form == "act") t->aligned_store_ct[c.n](gp, areg[c.r]);
                else if (c.form == "adef") t->aligned_store_def(gp, areg[c.r]); else t->store_def(gp, areg[c.r]);
                break;
            case OP_GATHER: if (c.form == "ct") t->gather_ct[c.n](gp, idxbuf, areg[c.r]); else if (c.form == "ded") t->gather_ded[c.n](gp, idxbuf, areg[c.r]); else if (c.form == "def") t->gather_def(gp, idxbuf, areg[c.r]); else t->gather(gp, idxbuf, c.n, areg[c.r]); break;
            case OP_SCATTER: if (c.form == "ct") t->scatter_ct[c.n](gp, areg[c.r], idxbuf); else if (c.form == "def") t->scatter_def(gp, areg[c.r], idxbuf); else t->scatter(gp, areg[c.r], idxbuf, c.n); break;
            case OP_FROMARR: t->from_array(gp, areg[c.r]); break;
            case OP_TOARR: t->to_array(areg[c.r], scratch); break;
            case OP_EXTRACT: t->extract[c.lane](areg[c.r], scratch); break;
            case OP_INSERT: t->insert[c.lane](areg[c.r], scratch + 64, areg[c.r]); break;
            case OP_PREFETCH:
                if (c.pdef) pf->untyped_default[c.pw](gp); else if (c.ptyped >= 0) pf->typed[c.pw][c.plevel][c.ptyped](gp, c.pn); else pf->untyped[c.pw][c.plevel](gp, c.pn);
                break;
            default: break;
        }
    }

    // executes the call with the requested fault kind; returns false if the operation was aborted
    bool run_call(const Call& c, unsigned poison, long tf_k, long* tf_total, int* tf_fired, int wfd_leader) {
        restore_opened();              // pages a previous execution of this step made accessible must not stay so
        g_nfaults = 0; g_abort_reason = 0;
        sigjmp_buf jb; bool ok = true;
        if (poison) { poison_stack(poison); tag_bytes(poison * 977u, garbage, 64); sim_poison_vector_regs(garbage, cpu_level); }
        // per-call limit in CPU time of this process (a hang spins; a loaded machine must not look like one): an operation that does
        // not return is a violation, not a stalled batch
        { struct itimerval it; std::memset(&it, 0, sizeof it); it.it_value.tv_sec = call_limit_s; setitimer(ITIMER_PROF, &it, nullptr); }
        if (sigsetjmp(jb, 1) == 0) {
            g_jmp = &jb;
            if (wfd_leader >= 0) { ioctl(wfd_leader, PERF_EVENT_IOC_RESET, PERF_IOC_FLAG_GROUP); ioctl(wfd_leader, PERF_EVENT_IOC_ENABLE, PERF_IOC_FLAG_GROUP); }
            if (tf_total) { g_tf_count = 0; g_tf_k = tf_k; g_tf_fired = 0; tf_on(); invoke(c); tf_off(); *tf_total = g_tf_count; *tf_fired = g_tf_fired; }
            else invoke(c);
            if (wfd_leader >= 0) ioctl(wfd_leader, PERF_EVENT_IOC_DISABLE, PERF_IOC_FLAG_GROUP);
        } else {
            ok = false;
            if (wfd_leader >= 0) ioctl(wfd_leader, PERF_EVENT_IOC_DISABLE, PERF_IOC_FLAG_GROUP);
        }
        g_jmp = nullptr;
        { struct itimerval it; std::memset(&it, 0, sizeof it); setitimer(ITIMER_PROF, &it, nullptr); }
        if (!ok && g_abort_reason == 4) {
            tf_off();
            if (call_limit_s < 8) {
                // confirm before calling it a hang: once more with four times the budget
                int saved = call_limit_s; call_limit_s = 8; st->obs["slow_call_retried_with_longer_limit"]++;
                bool again = run_call(c, poison, tf_k, tf_total, tf_fired, wfd_leader);
                call_limit_s = saved; return again;
            }
        }
        return ok;
    }

    // watch windows adjacent to [a, a+len): up to two after and two before, naturally aligned 1/2/4/8-byte windows
    struct Win { std::uintptr_t a; unsigned len; bool after; };
    static std::vector<Win> windows_for(std::uintptr_t a, std::size_t len) {
        std::vector<Win> w; std::uintptr_t e = a + len;
        for (int k = 0; k < 2; ++k) { unsigned s = 8; while (e % s) s >>= 1; w.push_back({e, s, true}); e += s; }
        std::uintptr_t b = a;
        for (int k = 0; k < 2; ++k) { unsigned s = 8; while ((b - s) % s) s >>= 1; w.push_back({b - s, s, false}); b -= s; }
        return w;
    }

    void memory_step(const Step& s, int stepno) {
        Call c; const std::string& op = s.op;
        c.kind = op == "load" ? OP_LOAD : op == "store" ? OP_STORE : op == "gather" ? OP_GATHER : op == "scatter" ? OP_SCATTER : op == "fromarr" ? OP_FROMARR :
                 op == "toarr" ? OP_TOARR : op == "extract" ? OP_EXTRACT : op == "insert" ? OP_INSERT : OP_PREFETCH;
        std::string pages = s.str("pages", "WWWWWWWW"); std::string fault = s.str("fault", "none"); unsigned poison = (unsigned)s.unum("poison");
        if (c.kind == OP_PREFETCH) { prefetch_step(s, stepno, pages, fault, poison); return; }
        c.t = find_type(s.str("type")); if (!c.t) { rr->log.linef("%d %s skipped (type not in this configuration)", stepno, op.c_str()); return; }
        const MType* t = c.t; const unsigned W = t->width, E = t->elem, VB = W * E;
        c.form = s.str("form", "rt"); c.n = (unsigned)s.unum("n"); c.r = (unsigned)(s.unum("r") & 3); c.lane = (unsigned)(s.unum("lane") % W);
        c.p = (std::size_t)s.unum("p"); c.idx = s.list("idx");
        bool ctform = c.form == "ct" || c.form == "act" || c.form == "ded";
        if (c.form == "ded" && !(c.kind == OP_GATHER && t->gather_ded)) { rr->log.linef("%d %s skipped (no pointer-deduced gather for this type)", stepno, op.c_str()); return; }
        if (ctform && c.n > W) c.n = W;                       // compile-time forms only exist for N <= width
        if (c.form == "def" || c.form == "adef" || c.kind == OP_FROMARR) c.n = W;
        const unsigned m = std::min(c.n, W); const std::size_t len = (std::size_t)m * E;
        bool is_gs = c.kind == OP_GATHER || c.kind == OP_SCATTER;
        if (is_gs && !t->has_gather) { rr->log.linef("%d %s skipped (no gather/scatter for this type)", stepno, op.c_str()); return; }
        bool aligned_form = c.form == "art" || c.form == "act" || c.form == "adef";
        bool mem_op = c.kind <= OP_FROMARR;
        // ---- harness sanity: the plan must make exactly the addressed elements accessible
        if (mem_op && !is_gs) {
            if (c.p % E || c.p + len > WBYTES || c.p < 64) { rr->log.linef("%d %s skipped (pointer not usable)", stepno, op.c_str()); return; }
            if (aligned_form && (c.p % t->vec_align)) { rr->log.linef("%d %s skipped (aligned form needs aligned pointer)", stepno, op.c_str()); return; }
            if (!range_ok(pages, c.p, len, c.kind == OP_STORE)) { rr->log.linef("%d %s skipped (addressed range not accessible in this page map)", stepno, op.c_str()); return; }
        }
        std::vector<std::size_t> tgt;          // element byte offsets of active gather/scatter lanes
        if (is_gs) {
            if (c.p % E || c.p >= WBYTES) { rr->log.linef("%d %s skipped (base pointer)", stepno, op.c_str()); return; }
            std::memset(idxbuf, 0, sizeof idxbuf);
            for (unsigned i = 0; i < W; ++i) { std::int64_t v = i < c.idx.size() ? c.idx[i] : 0; if (E == 4) { std::int32_t x = (std::int32_t)v; std::memcpy(idxbuf + i * 4, &x, 4); } else std::memcpy(idxbuf + i * 8, &v, 8); }
            for (unsigned i = 0; i < m; ++i) {
                std::int64_t v = i < c.idx.size() ? c.idx[i] : 0; if (E == 4) v = (std::int32_t)v;
                std::int64_t off = (std::int64_t)c.p + v * (std::int64_t)E;
                if (off < 0 || (std::size_t)off + E > WBYTES || !range_ok(pages, (std::size_t)off, E, c.kind == OP_SCATTER)) { rr->log.linef("%d %s skipped (active lane %u target not accessible)", stepno, op.c_str(), i); return; }
                tgt.push_back((std::size_t)off);
            }
        }
        if (c.kind == OP_INSERT) { tag_bytes(s.unum("tag"), scratch + 64, E); if (s.has("spec")) special_element((unsigned)s.unum("spec"), E, scratch + 64); }
        // ---- expected outcome on the reference model
        unsigned char exp_reg[64]; std::memcpy(exp_reg, mreg[c.r], 64); bool reg_out = false;
        unsigned char exp_scalar[8] = {0};
        std::vector<std::pair<std::size_t, std::vector<std::vector<unsigned char>>>> scat;   // element offset -> acceptable values
        switch (c.kind) {
            case OP_LOAD: case OP_FROMARR: std::memset(exp_reg, 0, VB); std::memcpy(exp_reg, model + c.p, len); reg_out = true; break;
            case OP_GATHER: std::memset(exp_reg, 0, VB); for (unsigned i = 0; i < m; ++i) std::memcpy(exp_reg + i * E, model + tgt[i], E); reg_out = true; break;
            case OP_STORE: break;
            case OP_SCATTER:
                for (unsigned i = 0; i < m; ++i) {
                    std::vector<unsigned char> v(mreg[c.r] + i * E, mreg[c.r] + (i + 1) * E); bool found = false;
                    for (auto& e : scat) if (e.first == tgt[i]) { e.second.push_back(v); found = true; }
                    if (!found) scat.push_back({tgt[i], {v}});
                }
                break;
            case OP_INSERT: std::memcpy(exp_reg + c.lane * E, scratch + 64, E); reg_out = true; break;
            case OP_EXTRACT: std::memcpy(exp_scalar, mreg[c.r] + c.lane * E, E); break;
            default: break;
        }
        // ---- fault kind
        apply_pages(pages);
        std::vector<Win> wins; int wfd[4] = {-1, -1, -1, -1};
        bool do_watch = fault == "watch" && watch_ok && mem_op && !is_gs;
        if (do_watch) {
            wins = windows_for(WIN + c.p, len);
            for (std::size_t i = 0; i < wins.size(); ++i) { long fd = perf_open(wins[i].a, wins[i].len, i == 0 ? -1 : wfd[0]); if (fd < 0) { for (auto f : wfd) if (f >= 0) close(f); wfd[0] = -1; do_watch = false; st->obs["watch_window_open_failed"]++; break; } wfd[i] = (int)fd; }
        }
        bool do_neigh = fault == "neigh" && (c.kind == OP_STORE || c.kind == OP_SCATTER);
        g_nneigh = 0;
        if (do_neigh) {
            // bytes adjacent to the addressed range that belong to somebody else: the rest of the vector-sized slot and the element before p
            std::size_t a0 = is_gs ? (tgt.empty() ? c.p : tgt.back()) : c.p; std::size_t l0 = is_gs ? (tgt.empty() ? 0 : E) : len;
            std::size_t after_len = std::min<std::size_t>(is_gs ? E : (VB > len ? VB - len : E), 64);
            auto clash = [&](std::size_t off, std::size_t ln) { for (auto o : tgt) if (off < o + E && o < off + ln) return true; return false; };
            if (range_ok(pages, a0 + l0, after_len, true) && !(is_gs && clash(a0 + l0, after_len))) { NeighWrite& nw = g_neigh[g_nneigh++]; nw.off = a0 + l0; nw.len = (unsigned)after_len; tag_bytes(s.unum("ntag") * 2 + 1, nw.val, nw.len); }
            if (a0 >= E && range_ok(pages, a0 - E, E, true) && !(is_gs && clash(a0 - E, E))) { NeighWrite& nw = g_neigh[g_nneigh++]; nw.off = a0 - E; nw.len = E; tag_bytes(s.unum("ntag") * 2 + 2, nw.val, nw.len); }
            if (!g_nneigh) do_neigh = false;
        }
        // ---- execute (possibly several times for an exhaustive-k neighbour sweep)
        std::string kspec = s.str("k", "0"); bool all_k = do_neigh && kspec == "all";
        long total = 0; int fired = 0; bool ok = true; unsigned char areg_before[64]; std::memcpy(areg_before, areg[c.r], 64);
        long k = do_neigh ? (all_k ? -1 : (long)s.unum("k")) : -1;
        if (do_neigh && !all_k) {
            // the plan's k is interpreted modulo the instruction count of THIS build (always fires)
            long t0 = 0; int f0 = 0; ok = run_call(c, poison, -1, &t0, &f0, -1);
            if (ok && t0 > 0) { k = k % t0; if (reg_out) std::memcpy(areg[c.r], areg_before, 64); restore_after_probe(c, pages); ok = run_call(c, poison, k, &total, &fired, -1); }
        } else if (all_k) {
            long t0 = 0; int f0 = 0; ok = run_call(c, poison, -1, &t0, &f0, -1);
            // every instruction index when the call is short; an evenly spread 256 of them when it is long (unoptimised builds)
            const long kstep = t0 > 256 ? (t0 + 255) / 256 : 1;
            for (long kk = 0; ok && kk < t0 && kk < 65536; kk += kstep) {
                for (int i = 0; i < g_nneigh; ++i) tag_bytes(s.unum("ntag") * 2 + 1 + (std::uint64_t)i + (std::uint64_t)kk * 7, g_neigh[i].val, g_neigh[i].len);
                if (reg_out) std::memcpy(areg[c.r], areg_before, 64);
                ok = run_call(c, poison, kk, &total, &fired, -1);
                if (!ok) break;
                st->faults["neighbour_write_at_instruction_k"]++;
                for (int i = 0; i < g_nneigh; ++i) if (std::memcmp(g_host + g_neigh[i].off, g_neigh[i].val, g_neigh[i].len)) {
                    char d[240]; std::snprintf(d, sizeof d, "%s %s form=%s n=%u: a neighbour's write of %u bytes at %+lld relative to p, performed after instruction %ld of %ld of the call, was overwritten",
                        op.c_str(), t->name, c.form.c_str(), c.n, g_neigh[i].len, (long long)g_neigh[i].off - (long long)c.p, kk, t0);
                    rr->violate("C09", stepno, {"C09", "lost_neighbour_update", op, t->name, c.form}, d); break; }
                if (rr->v.set) break;
            }
            st->probes["exhaustive_k_sweeps"]++;
        } else ok = run_call(c, poison, -1, nullptr, nullptr, do_watch ? wfd[0] : -1);
        std::uint64_t wcount[4] = {0, 0, 0, 0};
        if (do_watch) for (std::size_t i = 0; i < wins.size(); ++i) { if (read(wfd[i], &wcount[i], 8) != 8) wcount[i] = 0; close(wfd[i]); }
        // snapshot faults, then restore protections
        int nf = g_nfaults; FaultRec fr[8]; for (int i = 0; i < nf; ++i) fr[i] = g_faults[i]; int abort_reason = g_abort_reason;
        restore_opened();
        // ---- log
        {
            char rh[20]; std::snprintf(rh, sizeof rh, "%016llx", (unsigned long long)fnv1a(areg[c.r], 64));
            rr->log.linef("%d %s %s form=%s n=%u r=%u p=%zu pages=%s fault=%s faults=%d abort=%d reg=%s mem=%016llx", stepno, op.c_str(), t->name, c.form.c_str(), c.n, c.r, c.p, pages.c_str(),
                          fault.c_str(), nf, abort_reason, rh, (unsigned long long)fnv1a(g_host, WBYTES));
        }
        // ---- distinct case bookkeeping
        {
            bool after_adj = mem_op && !is_gs && (c.p + len) % PG == 0 && (c.p + len) < WBYTES && page_state(pages, c.p + len) != 'W';
            bool before_adj = mem_op && !is_gs && c.p % PG == 0 && c.p >= PG && page_state(pages, c.p - 1) != 'W';
            bool wild = false; if (is_gs) for (unsigned i = m; i < W && i < c.idx.size(); ++i) if (c.idx[i] != 0) wild = true;
            char tup[256]; std::snprintf(tup, sizeof tup, "%s|%s|%s|n=%u|%s|after=%c|before=%c|f=%s|al=%zu|lane=%u", t->name, op.c_str(), c.form.c_str(), c.n, s.str("place", "-").c_str(),
                after_adj ? page_state(pages, c.p + len) : '-', before_adj ? page_state(pages, c.p - 1) : '-', fault.c_str(), c.p % (t->vec_align ? t->vec_align : 1), (c.kind == OP_EXTRACT || c.kind == OP_INSERT) ? c.lane : 0);
            bool adj = after_adj || before_adj || do_watch || do_neigh || (is_gs && wild);
            bool partial = (m > 0 && m < W) || (is_gs && wild) || c.n == 0;
            st->case_seen(tup, adj && (partial || W == 1 || c.n >= W));
            if (after_adj && m < W && c.kind == OP_STORE) st->probes["partial_store_flush_against_inaccessible_page"]++;
            if (after_adj && m < W && c.kind == OP_LOAD) st->probes["partial_load_flush_against_inaccessible_page"]++;
            if (before_adj) st->probes["range_starts_right_after_inaccessible_page"]++;
            if (c.n == 0 && mem_op) st->probes["n0_calls"]++;
            if (c.form == "ded") st->probes["gather_pointer_deduced_form"]++;
            if (c.form == "adef" || (is_gs && c.form == "def")) st->probes["aligned_or_gather_scatter_overload_without_count"]++;
            if (mem_op && !is_gs && len && ((WIN + c.p) >> 32) != ((WIN + c.p + len - 1) >> 32)) st->probes["addressed_range_contains_multiple_of_2^32"]++;
            if (is_gs) { bool lo = false, hi = false; for (unsigned i = 0; i < m && i < c.idx.size(); ++i) { std::uintptr_t a = WIN + c.p + (std::uintptr_t)(c.idx[i] * (std::int64_t)t->elem); if ((a >> 32) == ((WIN + c.p) >> 32)) lo = true; else hi = true; }
                if (lo && hi) st->probes["gather_scatter_active_lanes_on_both_sides_of_a_multiple_of_2^32"]++; }
            if (is_gs && wild) st->probes["gather_scatter_with_wild_inactive_indices"]++;
            if (mem_op && !is_gs && !aligned_form && W > 1 && (c.p % t->vec_align)) st->probes["vector_misaligned_pointer"]++;
            if (poison) st->faults["stale_stack_and_register_poison"]++;
            if (after_adj || before_adj) st->faults[std::string("page_") + (after_adj ? page_state(pages, c.p + len) : page_state(pages, c.p - 1)) + "_adjacent"]++;
            if (do_watch) st->faults["watch_windows_armed"]++;
            if (do_neigh && !all_k && fired) st->faults["neighbour_write_at_instruction_k"]++;
        }
        // ---- oracle C09: faults
        if (!ok) {
            const FaultRec& f = fr[nf ? nf - 1 : 0];
            char d[320];
            if (abort_reason == 4) {
                std::snprintf(d, sizeof d, "%s %s form=%s n=%u: the call did not return within 3 s (and, retried, within 8 s) of CPU time", op.c_str(), t->name, c.form.c_str(), c.n);
                rr->violate("C08", stepno, {"C08", "hang", op, t->name, c.form}, d);
            } else if (abort_reason == 5 || abort_reason == 6) {
                std::snprintf(d, sizeof d, "%s %s form=%s n=%u: raised %s code=%s", op.c_str(), t->name, c.form.c_str(), c.n, abort_reason == 5 ? "SIGFPE" : "SIGILL", hexbytes(f.code, 8).c_str());
                rr->violate("C09", stepno, {"C09", "signal", op, t->name, c.form}, d);
            } else if (abort_reason == 1) {
                std::snprintf(d, sizeof d, "%s %s form=%s n=%u p%%%u=%zu: general-protection fault (aligned instruction on an element-aligned pointer?) code=%s", op.c_str(), t->name, c.form.c_str(), c.n, t->vec_align, c.p % t->vec_align, hexbytes(f.code, 8).c_str());
                rr->violate("C09", stepno, {"C09", "gp_fault", op, t->name, c.form}, d);
            } else {
                std::snprintf(d, sizeof d, "%s %s form=%s n=%u: access to %p outside every mapping the simulator owns (abort reason %d) code=%s", op.c_str(), t->name, c.form.c_str(), c.n, (void*)f.addr, abort_reason, hexbytes(f.code, 8).c_str());
                rr->violate("C09", stepno, {"C09", "wild_fault", op, t->name, c.form}, d);
            }
            return;   // state after a half-executed operation is undefined: the run ends here
        }
        if (nf > 0) {
            const FaultRec& f = fr[0]; const char* rel = "far";
            if (!is_gs && mem_op) { std::uintptr_t a = WIN + c.p; rel = f.addr < a ? "before" : f.addr >= a + len ? "after" : "inside"; }
            else if (is_gs) rel = "inactive_lane_or_wild";
            char d[360]; std::snprintf(d, sizeof d, "%s %s form=%s n=%u: %s fault at %+lld bytes relative to p (%s the addressed %zu bytes; page map %s) instruction=%s code=%s",
                op.c_str(), t->name, c.form.c_str(), c.n, f.write ? "write" : "read", (long long)f.addr - (long long)(WIN + c.p), rel, len, pages.c_str(), mnemonic(f.code), hexbytes(f.code, 8).c_str());
            rr->violate("C09", stepno, {"C09", "fault", op, t->name, c.form, mnemonic(f.code)}, d);
        }
        if (do_watch) for (std::size_t i = 0; i < wins.size(); ++i) if (wcount[i]) {
            char d[300]; std::snprintf(d, sizeof d, "%s %s form=%s n=%u: %llu access(es) to the %u bytes at %+lld relative to p (%s the addressed %zu bytes) seen by a data breakpoint",
                op.c_str(), t->name, c.form.c_str(), c.n, (unsigned long long)wcount[i], wins[i].len, (long long)wins[i].a - (long long)(WIN + c.p), wins[i].after ? "after" : "before", len);
            rr->violate("C09", stepno, {"C09", "watch_hit", op, t->name, c.form, wins[i].after ? "after" : "before"}, d); break;
        }
        // ---- update the model, then compare
        if (c.kind == OP_STORE) std::memcpy(model + c.p, mreg[c.r], len);
        if (do_neigh && !all_k && fired) for (int i = 0; i < g_nneigh; ++i) std::memcpy(model + g_neigh[i].off, g_neigh[i].val, g_neigh[i].len);
        if (all_k) for (int i = 0; i < g_nneigh; ++i) std::memcpy(model + g_neigh[i].off, g_host + g_neigh[i].off, g_neigh[i].len);   // judged inside the sweep
        if (c.kind == OP_SCATTER) {
            for (auto& e : scat) {
                bool match = false; for (auto& v : e.second) if (!std::memcmp(g_host + e.first, v.data(), E)) match = true;
                if (!match) { char d[200]; std::snprintf(d, sizeof d, "scatter %s form=%s n=%u: element at %+lld relative to p holds none of the %zu lane values aimed at it", t->name, c.form.c_str(), c.n, (long long)e.first - (long long)c.p, e.second.size());
                    rr->violate("C08", stepno, {"C08", "wrong_memory", op, t->name, c.form}, d); }
                std::memcpy(model + e.first, g_host + e.first, E);
                if (e.second.size() > 1) st->probes["scatter_duplicate_active_indices"]++;
            }
        }
        if (reg_out) std::memcpy(mreg[c.r], exp_reg, 64);
        // registers (C08)
        if (std::memcmp(areg[c.r], mreg[c.r], 64)) {
            unsigned lane = 0; while (lane < W && !std::memcmp(areg[c.r] + lane * E, mreg[c.r] + lane * E, E)) ++lane;
            char d[320]; std::snprintf(d, sizeof d, "%s %s form=%s n=%u lane-arg=%u: lane %u is %s, expected %s%s", op.c_str(), t->name, c.form.c_str(), c.n, c.lane, lane,
                lane < W ? hexbytes(areg[c.r] + lane * E, E).c_str() : "?", lane < W ? hexbytes(mreg[c.r] + lane * E, E).c_str() : "?", lane >= m && reg_out && c.kind != OP_INSERT ? " (lane beyond n must be zero)" : "");
            rr->violate("C08", stepno, {"C08", "wrong_register", op, t->name, c.form}, d);
            std::memcpy(areg[c.r], mreg[c.r], 64);
        }
        if (c.kind == OP_EXTRACT && std::memcmp(scratch, exp_scalar, E)) {
            char d[200]; std::snprintf(d, sizeof d, "extract<%u>(%s) returned %s, lane holds %s", c.lane, t->name, hexbytes(scratch, E).c_str(), hexbytes(exp_scalar, E).c_str());
            rr->violate("C08", stepno, {"C08", "wrong_scalar", op, t->name, "ct"}, d);
        }
        if (c.kind == OP_TOARR && std::memcmp(scratch, mreg[c.r], VB)) {
            rr->violate("C08", stepno, {"C08", "wrong_array", op, t->name, "-"}, std::string("to_array(") + t->name + ") does not round-trip the lanes");
        }
        // memory: bytes inside the addressed elements (C08) and outside them (C09)
        if (std::memcmp(g_host, model, WBYTES)) {
            std::size_t off = 0; while (g_host[off] == model[off]) ++off;
            bool inside;
            if (is_gs) { inside = false; for (auto o : tgt) if (off >= o && off < o + E) inside = true; }
            else inside = off >= c.p && off < c.p + len;
            char d[320]; std::snprintf(d, sizeof d, "%s %s form=%s n=%u: byte at %+lld relative to p is %02x, expected %02x (%s the addressed %zu bytes)", op.c_str(), t->name, c.form.c_str(), c.n,
                (long long)off - (long long)c.p, g_host[off], model[off], inside ? "inside" : "OUTSIDE", len);
            if (inside) rr->violate("C08", stepno, {"C08", "wrong_memory", op, t->name, c.form}, d);
            else if (do_neigh && !all_k && fired && in_neigh(off)) rr->violate("C09", stepno, {"C09", "lost_neighbour_update", op, t->name, c.form}, d);
            else rr->violate("C09", stepno, {"C09", "wrote_outside", op, t->name, c.form}, d);
            std::memcpy(g_host, model, WBYTES);
        }
    }
    bool in_neigh(std::size_t off) { for (int i = 0; i < g_nneigh; ++i) if (off >= g_neigh[i].off && off < g_neigh[i].off + g_neigh[i].len) return true; return false; }
    // after the counting probe of a single-k neighbour step the memory already holds the store's result; that is
    // what the second (injecting) execution starts from as well - stores/scatters are idempotent, nothing to undo
    void restore_after_probe(const Call&, const std::string& pages) { restore_opened(); apply_pages(pages); g_nfaults = 0; }

    //------------------------------------------------------------ prefetch (C20)
    void prefetch_step(const Step& s, int stepno, const std::string& pages, const std::string& fault, unsigned poison) {
        Call c; c.kind = OP_PREFETCH; c.pw = (int)(s.unum("w") & 1); c.plevel = (int)(s.unum("level") % 3);
        std::string form = s.str("form", "untyped"); c.pdef = form == "def"; c.ptyped = form.compare(0, 5, "typed") == 0 ? (int)(form[5] - '0') % 7 : -1;
        c.pn = (std::size_t)s.unum("n");
        std::string ptr = s.str("ptr", "win");
        if (ptr == "null") { c.use_raw = true; c.praw = 0; }
        else if (ptr == "raw") { c.use_raw = true; c.praw = (std::uintptr_t)s.unum("addr"); }
        else { c.p = (std::size_t)s.unum("p") % WBYTES; }
        static const unsigned TS[7] = {1, 4, 8, 64, 72, 200, 4096};
        std::size_t bytes = c.pdef ? 1 : c.ptyped >= 0 ? c.pn * TS[c.ptyped] : c.pn;
        apply_pages(pages);
        std::uint32_t mx0, mx1; asm volatile("stmxcsr %0" : "=m"(mx0));
        bool do_neigh = fault == "neigh" && !c.use_raw; g_nneigh = 0; long total = 0; int fired = 0;
        if (do_neigh) {
            // a neighbour writes INSIDE the prefetched range: a real hint leaves it alone, a read-write "touch" loses it
            std::size_t off = c.p / 8 * 8; if (range_ok(pages, off, 8, true)) { NeighWrite& nw = g_neigh[g_nneigh++]; nw.off = off; nw.len = 8; tag_bytes(s.unum("ntag") * 2 + 1, nw.val, 8); } else do_neigh = false;
        }
        bool ok = true;
        if (do_neigh) {
            long t0 = 0; int f0 = 0; ok = run_call(c, poison, -1, &t0, &f0, -1);
            long kmax = s.str("k", "0") == "all" ? std::min<long>(t0, 65536) : 1; long kbase = s.str("k", "0") == "all" ? 0 : (t0 ? (long)(s.unum("k") % (std::uint64_t)t0) : 0);
            const long kstep = kmax > 256 ? (kmax + 255) / 256 : 1;
            for (long kk = 0; ok && kk < kmax; kk += kstep) {
                tag_bytes(s.unum("ntag") * 2 + 1 + (std::uint64_t)kk * 5, g_neigh[0].val, 8);
                ok = run_call(c, poison, kbase + kk, &total, &fired, -1); if (!ok) break;
                if (fired) { st->faults["neighbour_write_at_instruction_k"]++; std::memcpy(model + g_neigh[0].off, g_neigh[0].val, 8);
                    if (std::memcmp(g_host + g_neigh[0].off, g_neigh[0].val, 8)) { char d[200]; std::snprintf(d, sizeof d, "prefetch_%s level=%d form=%s n=%zu: a neighbour's write into the prefetched line after instruction %ld was overwritten (the hint touched memory)", c.pw ? "write" : "read", c.plevel, form.c_str(), c.pn, kbase + kk);
                        rr->violate("C20", stepno, {"C20", "lost_neighbour_update", c.pw ? "prefetch_write" : "prefetch_read", form}, d); break; } }
            }
        } else ok = run_call(c, poison, -1, nullptr, nullptr, -1);
        asm volatile("stmxcsr %0" : "=m"(mx1));
        int nf = g_nfaults; FaultRec f0 = g_faults[0]; int abort_reason = g_abort_reason; restore_opened();
        rr->log.linef("%d prefetch w=%d level=%d form=%s n=%zu ptr=%s p=%zu pages=%s faults=%d abort=%d mem=%016llx", stepno, c.pw, c.plevel, form.c_str(), c.pn, ptr.c_str(), c.p, pages.c_str(), nf, abort_reason, (unsigned long long)fnv1a(g_host, WBYTES));
        const char* opn = c.pw ? "prefetch_write" : "prefetch_read";
        bool hits_bad = false; if (!c.use_raw) for (std::size_t o = c.p; o < c.p + std::max<std::size_t>(bytes, 1) && o < WBYTES; o += 64) if (page_state(pages, o) != 'W') hits_bad = true;
        if (c.use_raw || c.p + bytes > WBYTES) hits_bad = true;
        char tup[200]; std::snprintf(tup, sizeof tup, "pf|w=%d|l=%d|%s|ncls=%zu|ptr=%s|off=%zu|bad=%d|f=%s", c.pw, c.plevel, form.c_str(), bytes == 0 ? 0 : bytes <= 64 ? 1 : bytes <= 4096 ? 2 : 3, ptr.c_str(), c.p % 64, (int)hits_bad, fault.c_str());
        st->case_seen(tup, hits_bad || do_neigh);
        if (hits_bad) st->probes["prefetch_range_touches_inaccessible_memory"]++;
        if (!c.use_raw && last_pf_end == c.p && last_pf_key == (c.pw * 3 + c.plevel) && c.p % PG == 0 && page_state(pages, c.p) != 'W') st->probes["prefetch_stream_continues_into_inaccessible_page"]++;
        last_pf_end = c.use_raw ? (std::size_t)-1 : c.p + bytes; last_pf_key = c.pw * 3 + c.plevel;
        { std::uintptr_t a0 = c.use_raw ? c.praw : WIN + c.p, a1 = a0 + (bytes ? bytes - 1 : 0);
          if (bytes && a1 < a0) st->probes["prefetch_range_wraps_address_space"]++;
          else if (bytes && (a0 >> 32) != (a1 >> 32)) { st->probes["prefetch_range_contains_multiple_of_2^32"]++; if (!hits_bad) st->probes["prefetch_valid_range_contains_multiple_of_2^32"]++; } }
        if (c.ptyped >= 4) st->probes["prefetch_typed_element_larger_than_cache_line"]++;
        if (ptr == "null") st->probes["prefetch_null_pointer"]++;
        if (bytes == 0) st->probes["prefetch_n0"]++;
        if (!ok && abort_reason == 4) {
            char d[200]; std::snprintf(d, sizeof d, "%s level=%d form=%s n=%zu ptr=%s: the call did not return within 3 s (and, retried, within 8 s) of CPU time", opn, c.plevel, form.c_str(), c.pn, ptr.c_str());
            rr->violate("C20", stepno, {"C20", "hang", opn, form}, d); return;
        }
        if (!ok || nf > 0) {
            char d[260]; std::snprintf(d, sizeof d, "%s level=%d form=%s n=%zu ptr=%s: raised a signal (%s at %p, abort reason %d) code=%s", opn, c.plevel, form.c_str(), c.pn, ptr.c_str(),
                abort_reason == 5 ? "SIGFPE" : abort_reason == 6 ? "SIGILL" : f0.write ? "write fault" : "read fault", (void*)f0.addr, abort_reason, hexbytes(f0.code, 8).c_str());
            rr->violate("C20", stepno, {"C20", "signal", opn, form}, d); if (!ok) return;
        }
        if (std::memcmp(g_host, model, WBYTES)) {
            std::size_t off = 0; while (g_host[off] == model[off]) ++off;
            char d[200]; std::snprintf(d, sizeof d, "%s level=%d form=%s n=%zu: memory changed at window offset %zu (%02x -> %02x)", opn, c.plevel, form.c_str(), c.pn, off, model[off], g_host[off]);
            rr->violate("C20", stepno, {"C20", "memory_changed", opn, form}, d); std::memcpy(g_host, model, WBYTES);
        }
        if ((mx0 & 0xFFC0) != (mx1 & 0xFFC0)) rr->violate("C20", stepno, {"C20", "mxcsr_changed", opn, form}, "prefetch changed the MXCSR control bits");
    }

    void execute(const Plan& pl, RunResult& r, Stats& s) override {
        rr = &r; st = &s; r.log.line(pl.head.text()); last_pf_end = (std::size_t)-1; last_pf_key = -1;
        unsigned memseed = (unsigned)pl.head.unum("mem", 1);
        // whatever the previous run left on the stack or in vector registers is replaced by plan-determined garbage,
        // so that steps without an explicit poison still see a history that is a function of THIS plan only
        poison_stack_deep(memseed * 7u + 3u); tag_bytes(memseed * 31u + 5u, garbage, 64); sim_poison_vector_regs(garbage, cpu_level);
        apply_pages("WWWWWWWW");
        for (std::size_t i = 0; i < WBYTES; ++i) model[i] = init_byte(memseed, i);
        std::memcpy(g_host, model, WBYTES);
        for (unsigned k = 0; k < 4; ++k) { tag_bytes(1000 + k, mreg[k], 64); std::memcpy(areg[k], mreg[k], 64); }
        int stepno = 0;
        for (auto& stp : pl.steps) {
            if (stp.op == "setreg") { unsigned k = (unsigned)(stp.unum("r") & 3); class_bytes(stp.unum("tag"), (unsigned)stp.unum("cls") % 7, mreg[k], 64, (unsigned)stp.unum("e", 4));
                if (stp.has("spec")) { unsigned es = (unsigned)stp.unum("e", 4); es = es == 1 || es == 2 || es == 4 || es == 8 ? es : 4; unsigned ln = (unsigned)stp.unum("lane") % (64 / es); special_element((unsigned)stp.unum("spec"), es, mreg[k] + ln * es); s.probes["register_lane_holds_special_value"]++; } std::memcpy(areg[k], mreg[k], 64); r.log.linef("%d setreg r=%u tag=%llu cls=%u", stepno, k, (unsigned long long)stp.unum("tag"), (unsigned)stp.unum("cls") % 7); s.probes["register_value_class_" + std::to_string((unsigned)stp.unum("cls") % 7)]++; }
            else if (stp.op == "fill") {
                // the owner of the buffer rewrites part of it with a value class (through the host view; protections do not matter)
                std::size_t off = (std::size_t)stp.unum("p") % WBYTES, len = std::min<std::size_t>((std::size_t)stp.unum("len"), 256); if (off + len > WBYTES) len = WBYTES - off;
                unsigned char tmp[256]; class_bytes(stp.unum("tag"), (unsigned)stp.unum("cls") % 7, tmp, (unsigned)len, (unsigned)stp.unum("e", 4));
                std::memcpy(model + off, tmp, len); std::memcpy(g_host + off, tmp, len);
                r.log.linef("%d fill p=%zu len=%zu cls=%u", stepno, off, len, (unsigned)stp.unum("cls") % 7); s.probes["memory_value_class_fills"]++;
            }
            else if (stp.op == "load" || stp.op == "store" || stp.op == "gather" || stp.op == "scatter" || stp.op == "fromarr" || stp.op == "toarr" || stp.op == "extract" || stp.op == "insert" || stp.op == "prefetch") memory_step(stp, stepno);
            else { r.harness_error = "unknown step op " + stp.op; break; }
            ++stepno; r.steps_done = stepno;
            if (r.v.set || !r.harness_error.empty()) break;
        }
        apply_pages("WWWWWWWW");
        rr = nullptr; st = nullptr;
    }

    //------------------------------------------------------------ plan generation
    void head(Plan& out, const char* kind, unsigned memseed) { out.head.op = "plan"; out.head.set("engine", "mem"); out.head.set("prop", prop); out.head.set("kind", kind); out.head.setu("mem", memseed); }

    // placement of the addressed range; fills p, pages, place
    void place(Step& s, const MType* t, unsigned n, bool aligned, bool store, const char* kind, unsigned pg, unsigned d, char bad) {
        const unsigned W = t->width, E = t->elem; std::size_t len = (std::size_t)std::min(n, W) * E; std::string pages = "WWWWWWWW"; std::size_t p;
        std::string k = kind;
        if (aligned) {
            // aligned forms need a vector-aligned pointer: the slot sits at the end or the start of the page
            if (k == "end_flush") { p = (pg + 1) * PG - std::max<std::size_t>(t->vec_align, len ? (len + t->vec_align - 1) / t->vec_align * t->vec_align : t->vec_align); pages[pg + 1] = bad; }
            else if (k == "start_flush") { p = pg * PG; pages[pg - 1] = bad; }
            else p = pg * PG + 1024;
        } else if (k == "end_flush") { p = (pg + 1) * PG - len - (std::size_t)d * E; pages[pg + 1] = bad; }
        else if (k == "start_flush") { p = pg * PG + (std::size_t)d * E; pages[pg - 1] = bad; }
        else if (k == "straddle") { p = (pg + 1) * PG - (len / E / 2) * E; }
        else if (k == "both") { p = (pg + 1) * PG - len; pages[pg + 1] = bad; if (len && len <= PG && p == pg * PG) pages[pg - 1] = bad; }
        else { p = pg * PG + 2048 + E; }        // mid-page, element-aligned but not vector-aligned
        if (n == 0 && k != "mid" && k != "aligned") {
            // n == 0 performs no access at all: the pointer itself sits in the inaccessible page
            if (k == "end_flush" || k == "both") p = (pg + 1) * PG; else if (k == "start_flush") p = pg * PG - (aligned ? t->vec_align : E);
        }
        (void)store;
        s.setu("p", p); s.set("pages", pages); s.set("place", k);
    }

    struct SweepCase { unsigned type; unsigned char op, form, n, place, bad, fault; };
    std::vector<SweepCase> sweep; std::vector<std::array<unsigned, 4>> pfsweep;
    void build_sweep() {
        bool c20 = prop == "C20";
        if (!c20) {
            for (unsigned ti = 0; ti < types.size(); ++ti) {
                const MType* t = types[ti]; unsigned W = t->width;
                for (unsigned op = 0; op < 2; ++op)                      // load, store
                    for (unsigned form = 0; form < 6; ++form)            // rt art ct act def adef
                        for (unsigned n = 0; n <= W + 2; ++n) {
                            if ((form == 2 || form == 3) && n > W) continue; if (form >= 4 && n != W) continue;
                            for (unsigned pl = 0; pl < 4; ++pl)          // end_flush, start_flush, both/straddle, mid
                                for (unsigned bad = 0; bad < 2; ++bad) { if (pl == 3 && bad) continue; sweep.push_back({ti, (unsigned char)op, (unsigned char)form, (unsigned char)n, (unsigned char)pl, (unsigned char)bad, 0}); }
                        }
                if (t->has_gather) for (unsigned op = 2; op < 4; ++op) for (unsigned form = 0; form < 3; ++form) for (unsigned n = 0; n <= W + 2; ++n) { if (form == 1 && n > W) continue; if (form == 2 && n != W) continue;
                    for (unsigned pl = 0; pl < 8; ++pl) sweep.push_back({ti, (unsigned char)op, (unsigned char)(form == 1 ? 2 : form == 2 ? 4 : 0), (unsigned char)n, (unsigned char)pl, 0, 0}); }
                if (t->has_gather && t->gather_ded) for (unsigned n = 0; n <= W; ++n) for (unsigned pl = 0; pl < 8; ++pl) sweep.push_back({ti, 2, 6, (unsigned char)n, (unsigned char)pl, 0, 0});
                for (unsigned lane = 0; lane < W; ++lane) { sweep.push_back({ti, 6, 0, (unsigned char)lane, 0, 0, 0}); sweep.push_back({ti, 7, 0, (unsigned char)lane, 0, 0, 0});
                    // the lane under test holds each special element value in turn (bad = 1 + spec): lane access must be pure bit movement
                    for (unsigned spec = 0; spec < 8; ++spec) { sweep.push_back({ti, 6, 0, (unsigned char)lane, 0, (unsigned char)(1 + spec), 0}); sweep.push_back({ti, 7, 0, (unsigned char)lane, 0, (unsigned char)(1 + spec), 0}); } }
                // stores and round trips of vectors whose first / last lane holds a special value
                for (unsigned spec = 0; spec < 8; ++spec) for (unsigned which = 0; which < 2; ++which) { sweep.push_back({ti, 1, 0, (unsigned char)(W > 1 ? W - 1 + which : 1), 3, (unsigned char)(1 + spec), (unsigned char)(8 + which)}); sweep.push_back({ti, 5, 0, 0, 0, (unsigned char)(1 + spec), (unsigned char)(8 + which)}); }
                sweep.push_back({ti, 4, 0, (unsigned char)W, 0, 0, 0}); sweep.push_back({ti, 4, 0, (unsigned char)W, 1, 0, 0}); sweep.push_back({ti, 5, 0, 0, 0, 0, 0});
                if (tier == "thorough") {
                    // thorough: watch windows on EVERY (op, form, n) at the mid-page placement, the neighbour writer at every instruction
                    // index of EVERY partial store in all four counted forms, and every distance d to the page boundary via 'near' placements
                    if (prop != "C08") for (unsigned op = 0; op < 2; ++op) for (unsigned form = 0; form < 4; ++form) for (unsigned n = 0; n <= W; ++n) {
                        sweep.push_back({ti, (unsigned char)op, (unsigned char)form, (unsigned char)n, (unsigned char)((form & 1) ? 5 : 3), 0, 1});
                        // single-stepping costs ~35 us per instruction here: for wide types the exhaustive-k sweep takes a spread of n only
                        bool pick = W <= 16 || n <= 3 || n >= W - 2 || n % (W / 8) <= 1;
                        if (op == 1 && n > 0 && n < W && form < 2 && pick) sweep.push_back({ti, 1, (unsigned char)form, (unsigned char)n, (unsigned char)((form & 1) ? 5 : 3), 0, 2});
                    }
                    for (unsigned op = 0; op < 2; ++op) for (unsigned n = 1; n <= W; ++n) for (unsigned d = 1; d <= W && d <= 16; ++d) sweep.push_back({ti, (unsigned char)op, 0, (unsigned char)n, (unsigned char)(6 + (d - 1)), 0, 0});
                }
                // neighbour writer at EVERY instruction index of a partial store, and watch windows on partial load/store
                // (footprint oracles: C09 only - the C08 check spends its budget on values, forms and placements)
                if (prop == "C08") continue;
                if (W > 1) { sweep.push_back({ti, 1, 2, (unsigned char)(W / 2), 3, 0, 2}); sweep.push_back({ti, 1, 3, (unsigned char)(W / 2 + 1 < W ? W / 2 + 1 : 1), 5, 0, 2}); }
                if (W > 1) { unsigned ns[3] = {1, W / 2, W - 1};
                    for (unsigned k = 0; k < 3; ++k) {
                        // single-stepping is the expensive fault kind: the quick tier takes n = 1 and W-1 for the run-time form and n = W/2 for the aligned
                        // form; the thorough tier takes all three for both (and a spread of every n, above)
                        bool thor = tier == "thorough";
                        if (thor || k != 1) sweep.push_back({ti, 1, 0, (unsigned char)ns[k], 3, 0, 2});
                        if (thor || k == 1) sweep.push_back({ti, 1, 1, (unsigned char)ns[k], 5, 0, 2});
                        sweep.push_back({ti, 0, 0, (unsigned char)ns[k], 3, 0, 1}); sweep.push_back({ti, 1, 0, (unsigned char)ns[k], 3, 0, 1}); } }
                else { sweep.push_back({ti, 1, 0, 1, 3, 0, 2}); sweep.push_back({ti, 0, 0, 1, 3, 0, 1}); sweep.push_back({ti, 1, 0, 0, 3, 0, 1}); }
            }
        }
        if (c20 || prop.empty()) {
            for (unsigned w = 0; w < 2; ++w) for (unsigned lv = 0; lv < 3; ++lv) for (unsigned form = 0; form < 9; ++form) for (unsigned nc = 0; nc < 10; ++nc) for (unsigned pc = 0; pc < 13; ++pc) pfsweep.push_back({w * 3 + lv, form, nc, pc});
        }
    }
    // streaming sequences for prefetch: consecutive requests, each starting exactly where the previous one ended, walking
    // up to and into an inaccessible page (what a "work on block k, prefetch block k+1" loop does at the end of a buffer)
    std::uint64_t stream_plans() const { return (prop == "C20" || prop.empty()) ? 2 * 3 * 3 * 3 * 4 : 0; }
    void stream_plan(std::uint64_t i, Plan& out) {
        unsigned w = (unsigned)(i % 2), lv = (unsigned)(i / 2 % 3), form = (unsigned)(i / 6 % 3), bad = (unsigned)(i / 18 % 3), var = (unsigned)(i / 54 % 4);
        static const char* F[3] = {"untyped", "typed0", "typed1"}; static const char BADS[3] = {'N', 'H', 'R'};
        std::string pages = "WWWWWWWW"; pages[4] = BADS[bad];
        std::size_t blk = var == 0 ? 64 : var == 1 ? 256 : var == 2 ? 4096 : 192; std::size_t start = 4 * PG - 3 * blk - (var == 3 ? 0 : 0);
        for (unsigned k = 0; k < 5; ++k) {
            Step s; s.op = "prefetch"; s.setu("w", w); s.setu("level", lv); s.set("form", F[form]); s.setu("n", form == 2 ? blk / 4 : blk);
            s.set("ptr", "win"); s.setu("p", start + k * blk); s.set("pages", pages); s.setu("poison", k ? 0 : 7); s.set("fault", "none"); s.set("place", "stream");
            out.steps.push_back(s);
        }
    }
    std::uint64_t sweep_count() override { return sweep.size() + pfsweep.size() + stream_plans(); }

    static const char* form_name(unsigned f) { static const char* F[7] = {"rt", "art", "ct", "act", "def", "adef", "ded"}; return F[f]; }

    void gs_indices(Step& s, const MType* t, unsigned n, unsigned variant, std::uint64_t salt, bool store) {
        // base pointer mid-window; active lanes aim at distinct elements next to page boundaries; inactive lanes are wild
        const unsigned W = t->width, E = t->elem; std::string pages = "WWWNWWWW"; (void)store;
        std::size_t base = 4 * PG + 512; std::vector<std::int64_t> idx; unsigned m = std::min(n, W);
        // variants 5 and 6: the BASE POINTER itself is not dereferenceable (it sits in the inaccessible page, or one element before
        // the data): p[0] belongs to no active lane, so an implementation that substitutes index 0 for inactive lanes faults
        if (variant == 5) base = 3 * PG + 256; else if (variant == 6) base = 4 * PG - E;
        for (unsigned i = 0; i < W; ++i) {
            std::int64_t v;
            if (i < m) {
                // targets: last elements of page 2 (flush against NONE page 3), first elements of page 4, around base, negative side
                std::size_t off;
                switch (variant == 7 ? (i % 4) : variant >= 5 ? 5u : variant >= 2 ? 4u : (i + variant) % 4) { case 0: off = 3 * PG - (std::size_t)(i / 4 + 1) * E; break; case 1: off = 4 * PG + (std::size_t)(i / 4) * E; break; case 2: off = base + (std::size_t)(i + 3) * 5 * E; break;
                    case 3: off = 1 * PG + (std::size_t)(i * 3 + 1) * E; break;
                    case 5: off = (i % 2) ? 4 * PG + (std::size_t)(i + 1) * E : 3 * PG - (std::size_t)(i + 1) * E; break;      // both sides of the inaccessible page, never p[0]
                    default:   // variants 2..4: orderings and collisions among the ACTIVE lanes
                        if (variant == 2) off = 3 * PG - (std::size_t)(i + 1) * E;                      // all negative, strictly descending, ending flush against the NONE page
                        else if (variant == 3) off = base - (std::size_t)(2 * E) * (i % 2);             // every active lane aims at one of two elements (heavy duplicates, incl. index 0)
                        else off = base + (std::size_t)(((i * 7 + salt) % (2 * W)) * E) - (std::size_t)W * E;   // a permutation-like scramble around the base pointer, both signs
                        break; }
                v = ((std::int64_t)off - (std::int64_t)base) / (std::int64_t)E;
                if (variant == 1 && i == m - 1 && m >= 2) v = idx[0];            // duplicate active index
            } else if (variant == 7) {
                // inactive lanes hold VALID indices of readable, non-zero elements: an implementation that ignores n neither faults nor
                // stays invisible - the extra lanes come back non-zero (gather) or the extra elements are overwritten (scatter)
                v = ((std::int64_t)(base + (std::size_t)(W + i + 2) * 3 * E) - (std::int64_t)base) / (std::int64_t)E;
            } else {
                switch ((i + salt) % 5) {
                    case 0: v = ((std::int64_t)(3 * PG + 64) - (std::int64_t)base) / (std::int64_t)E; break;          // inside the NONE page
                    case 1: v = E == 4 ? (std::int64_t)INT32_MIN : -(std::int64_t)(6ll * (std::int64_t)GiB / E); break;
                    case 2: v = E == 4 ? (std::int64_t)INT32_MAX : (std::int64_t)(7ll * (std::int64_t)GiB / E); break;
                    case 3: v = -(std::int64_t)((base + 40 * PG) / E); break;                                         // before the window, in the reservation
                    default: v = (std::int64_t)((WBYTES + 17 * PG) / E); break;                                       // after the window
                }
            }
            idx.push_back(v);
        }
        s.setu("p", base); s.set("pages", pages); s.setlist("idx", idx); s.set("place", variant == 0 ? "gs_edges" : variant == 1 ? "gs_dup" : variant == 2 ? "gs_desc_neg" : variant == 3 ? "gs_two_targets" : variant == 4 ? "gs_scramble" : variant == 5 ? "gs_base_in_none_page" : variant == 6 ? "gs_base_before_data" : "gs_inactive_lanes_valid");
    }

    void sweep_plan(std::uint64_t i, Plan& out) override {
        head(out, "sweep", (unsigned)(i % 251 + 1));
        if (i >= sweep.size() + pfsweep.size()) { stream_plan(i - sweep.size() - pfsweep.size(), out); return; }
        if (i >= sweep.size()) { pf_sweep_plan(i - sweep.size(), out); return; }
        const SweepCase& sc = sweep[(std::size_t)i]; const MType* t = types[sc.type];
        Step sr; sr.op = "setreg"; sr.set("r", 1); sr.setu("tag", i * 3 + 7); sr.setu("cls", (i / 7) % 3 == 0 ? (i % 7) : 0); sr.setu("e", t->elem); out.steps.push_back(sr);
        if (sc.op == 0 || sc.op == 2 || sc.op == 4) { }   // loads read the run's seeded memory; see fill below
        bool lane_spec = (sc.op == 6 || sc.op == 7) && sc.bad >= 1; bool edge_spec = (sc.op == 1 || sc.op == 5) && sc.fault >= 8;
        if ((lane_spec && sc.op == 6) || edge_spec) { Step& r0 = out.steps.back(); r0.setu("e", t->elem); r0.setu("lane", edge_spec ? (sc.fault == 8 ? 0 : t->width - 1) : sc.n); r0.setu("spec", sc.bad - 1); r0.setu("cls", 0); }
        Step s; s.set("type", t->name); s.set("r", 1); s.setu("poison", i % 250 + 1);
        if (lane_spec && sc.op == 7) s.setu("spec", sc.bad - 1);
        static const char* OPN[8] = {"load", "store", "gather", "scatter", "fromarr", "toarr", "extract", "insert"};
        s.op = OPN[sc.op];
        if (sc.op <= 1) {
            s.set("form", form_name(sc.form)); s.setu("n", sc.n);
            bool aligned = sc.form == 1 || sc.form == 3 || sc.form == 5; char bad = sc.bad ? 'R' : 'N';
            if (sc.op == 0 && bad == 'R') bad = 'H';                       // for loads the second protection kind is a hole
            const char* kinds[6] = {"end_flush", "start_flush", "both", "mid", "straddle", "aligned"};
            if (sc.place >= 6) place(s, t, sc.n, aligned, sc.op == 1, "end_flush", 2 + (unsigned)(i % 3), sc.place - 5, bad);   // 'near': d elements short of the boundary
            else place(s, t, sc.n, aligned, sc.op == 1, kinds[sc.place], 2 + (unsigned)(i % 3), 0, bad);
            s.set("fault", sc.fault == 1 ? "watch" : sc.fault == 2 ? "neigh" : "none"); if (sc.fault == 2) { s.set("k", "all"); s.setu("ntag", i); }
            if (edge_spec) bad = 'N';
        } else if (sc.op <= 3) {
            s.set("form", form_name(sc.form)); s.setu("n", sc.n); gs_indices(s, t, sc.n, sc.place, i, sc.op == 3); s.set("fault", "none");
            if (sc.op == 2 && i % 3 == 2) {   // the gathered elements themselves hold special values (zero, all ones, sign bit, NaN ...)
                const std::size_t spots[4] = {3 * PG - 256, 4 * PG, 4 * PG + 512, 1 * PG};
                for (std::size_t sp : spots) { Step f; f.op = "fill"; f.setu("p", sp); f.setu("len", 256); f.setu("tag", i + sp); f.setu("cls", 6); f.setu("e", t->elem); out.steps.push_back(f); }
            }
        } else if (sc.op == 4) { s.setu("n", t->width); place(s, t, t->width, false, false, sc.place ? "start_flush" : "end_flush", 3, 0, 'N'); }
        else if (sc.op >= 6) { s.setu("lane", sc.n); s.setu("tag", i + 99); }
        if ((sc.op == 0 || sc.op == 4) && i % 3 == 1) { Step f; f.op = "fill"; f.setu("p", s.unum("p")); f.setu("len", (std::uint64_t)t->width * t->elem); f.setu("tag", i + 11); f.setu("cls", 1 + i % 6); f.setu("e", t->elem); out.steps.push_back(f); }
        out.steps.push_back(s);
        if (sc.op == 1 || sc.op == 3) { Step l = s; l.op = sc.op == 1 ? "load" : "gather"; l.set("r", 2); l.set("fault", "none"); l.kv.erase(std::remove_if(l.kv.begin(), l.kv.end(), [](const std::pair<std::string, std::string>& p) { return p.first == "k" || p.first == "ntag"; }), l.kv.end());
            if (!(sc.op == 3 && (sc.place == 1 || sc.place >= 3))) out.steps.push_back(l); }
    }

    // pointer classes for prefetch
    void pf_pointer(Step& s, unsigned pc, std::uint64_t salt) {
        std::string pages = "WWWNWRHW";
        switch (pc) {
            case 0: s.set("ptr", "win"); s.setu("p", 1 * PG + (salt % 64)); break;                       // valid, every offset within a line
            case 1: s.set("ptr", "win"); s.setu("p", 3 * PG - 1 - (salt % 64)); break;                   // ends/straddles into the NONE page
            case 2: s.set("ptr", "win"); s.setu("p", 3 * PG + (salt % 4096)); break;                     // inside the NONE page
            case 3: s.set("ptr", "win"); s.setu("p", 5 * PG + (salt % 4096)); break;                     // inside the RO page
            case 4: s.set("ptr", "win"); s.setu("p", 6 * PG + (salt % 4096)); break;                     // inside the hole
            case 5: s.set("ptr", "null"); break;
            case 6: s.set("ptr", "raw"); s.setu("addr", RES_BASE + GiB + (salt % 4096)); break;          // reserved, inaccessible, far away
            case 7: s.set("ptr", "raw"); s.setu("addr", 0x10 + (salt % 64)); break;                      // near-null
            case 8: s.set("ptr", "raw"); s.sethex("addr", 0x00007ffffffff000ull + (salt % 4096)); break; // top of user space
            case 9: s.set("ptr", "win"); s.setu("p", 4 * PG - 1 - (salt % 64)); pages = "WWWWWWWW"; break;  // wholly valid range that contains a multiple of 2^32
            case 10: s.set("ptr", "raw"); s.setu("addr", RES_BASE + 2 * GiB - 1 - (salt % 64)); break;     // inaccessible range containing a multiple of 2^31
            case 11: s.set("ptr", "raw"); s.sethex("addr", 0xffffffffffffffffull - (salt % 64)); break;     // range wraps around the top of the address space
            default: s.set("ptr", "raw"); s.sethex("addr", 0xffff800000000000ull - 1 - (salt % 64)); break; // non-canonical, ends in the kernel half
        }
        s.set("pages", pages);
    }
    static std::size_t pf_n(unsigned nc, std::uint64_t salt) { static const std::size_t N[10] = {0, 1, 2, 63, 64, 65, 128, 4096, 12288, 20000}; return N[nc % 10] + (nc >= 7 ? salt % 64 : 0); }
    static const char* pf_form(unsigned f) { static const char* F[9] = {"untyped", "typed0", "typed1", "typed2", "typed3", "def", "typed4", "typed5", "typed6"}; return F[f % 9]; }
    static std::size_t pf_elem(unsigned f) { static const std::size_t S[9] = {1, 1, 4, 8, 64, 1, 72, 200, 4096}; return S[f % 9]; }
    void pf_sweep_plan(std::uint64_t i, Plan& out) {
        auto& c = pfsweep[(std::size_t)i]; Step s; s.op = "prefetch"; s.setu("w", c[0] / 3); s.setu("level", c[0] % 3); s.set("form", pf_form(c[1]));
        std::size_t n = pf_n(c[2], i); if (pf_elem(c[1]) >= 64) n = n / pf_elem(c[1]) + (c[2] < 3 ? n : 0); s.setu("n", n);     // n counts elements: 0, 1, 2 elements and what the byte classes amount to
        pf_pointer(s, c[3], i); s.setu("poison", i % 200 + 1);
        bool neigh = c[3] == 0 && c[2] >= 1 && c[2] <= 6; s.set("fault", neigh ? "neigh" : "none"); if (neigh) { s.set("k", "all"); s.setu("ntag", i); }
        out.steps.push_back(s);
    }

    void generate(Rng& r, Plan& out) override {
        head(out, "seeded", (unsigned)r.below(250) + 1);
        bool c20 = prop == "C20";
        // swarm: subset of types and ops, which fault kinds are enabled in this run
        std::vector<const MType*> pool; std::uint64_t tm = r.next() | (1ull << r.below(types.size()));
        for (std::size_t i = 0; i < types.size(); ++i) if ((tm >> (i % 64)) & 1) pool.push_back(types[i]);
        unsigned fmask = (unsigned)r.below(8);        // bit0 watch, bit1 neigh (only when bit2 also set: single-stepping costs ~35us/instruction in this VM)
        if (!(fmask & 4)) fmask &= ~2u;
        if (prop == "C08") fmask &= ~3u;     // watch windows and the neighbour writer serve C09
        bool focus_val = prop == "C08";
        unsigned nsteps = (unsigned)r.range(4, 24);
        for (unsigned k = 0; k < nsteps; ++k) {
            if (c20 && r.chance(1, 8)) {
                // a stream: 2..6 consecutive requests at one level, each continuing where the previous one ended
                unsigned w_ = (unsigned)r.below(2), lv = (unsigned)r.below(3), fm = (unsigned)r.below(5); std::size_t blk = (std::size_t)r.pick(std::vector<std::size_t>{16, 64, 100, 256, 1024, 4096}); unsigned cnt = (unsigned)r.range(2, 6);
                std::string pg = "WWWWWWWW"; unsigned badpage = 2 + (unsigned)r.below(5); pg[badpage] = "NHR"[r.below(3)];
                static const unsigned TS[4] = {1, 4, 8, 64}; unsigned ts = fm == 0 ? 1 : TS[fm - 1]; blk = (blk + ts - 1) / ts * ts;
                std::size_t endk = 1 + (std::size_t)r.below(cnt); std::size_t start = badpage * PG >= endk * blk ? badpage * PG - endk * blk : 0;   // request number endk+1 begins exactly at the bad page
                for (unsigned q = 0; q < cnt && start + (q + 1) * blk < WBYTES; ++q) {
                    Step s; s.op = "prefetch"; s.setu("w", w_); s.setu("level", lv); s.set("form", fm == 0 ? "untyped" : pf_form(fm)); s.setu("n", blk / ts); s.set("ptr", "win"); s.setu("p", start + q * blk);
                    s.set("pages", pg); s.setu("poison", 0); s.set("fault", "none"); s.set("place", "stream"); out.steps.push_back(s);
                }
                k += cnt - 1; continue;
            }
            if (c20 && !r.chance(1, 6)) {
                Step s; s.op = "prefetch"; s.setu("w", r.below(2)); s.setu("level", r.below(3)); unsigned pff = (unsigned)r.below(9); s.set("form", pf_form(pff));
                unsigned nc = (unsigned)r.below(12); std::size_t n = nc < 10 ? pf_n(nc, r.below(64)) : (std::size_t)r.below(30000); if (pf_elem(pff) >= 64) n = n / (pf_elem(pff) / 2) + (nc < 3 ? n : 0); s.setu("n", n);
                pf_pointer(s, (unsigned)r.below(13), r.next() % 100000); s.setu("poison", r.chance(1, 2) ? r.below(250) + 1 : 0);
                bool neigh = s.str("ptr") == "win" && r.chance(1, 3) && n <= 512; s.set("fault", neigh ? "neigh" : "none"); if (neigh) { s.setu("k", r.below(4096)); s.setu("ntag", r.below(1u << 20)); }
                // random page map variations
                if (r.chance(1, 3)) { std::string pg = "WWWWWWWW"; for (auto& ch : pg) { unsigned x = (unsigned)r.below(8); ch = x < 4 ? 'W' : x == 4 ? 'N' : x == 5 ? 'R' : x == 6 ? 'H' : 'W'; } s.set("pages", pg); }
                out.steps.push_back(s); continue;
            }
            const MType* t = pool[r.below(pool.size())]; const unsigned W = t->width;
            unsigned w = (unsigned)r.below(100);
            if (w < 12) { Step s; s.op = "setreg"; s.setu("r", r.below(4)); s.setu("tag", r.below(1u << 24)); s.setu("cls", r.chance(1, 2) ? 0 : r.below(7)); s.setu("e", t->elem); out.steps.push_back(s); continue; }
            Step s; s.set("type", t->name); s.setu("r", r.below(4)); s.setu("poison", r.chance(2, 3) ? r.below(250) + 1 : 0);
            unsigned n = (unsigned)(r.chance(1, 6) ? W + r.below(3) : r.chance(1, 8) ? 0 : r.below(W + 1));
            if (w < 40 || w < 68) {
                bool store = w >= 40; s.op = store ? "store" : "load";
                unsigned form = (unsigned)r.below(10); form = form < 3 ? 0 : form < 5 ? 1 : form < 7 ? 2 : form < 8 ? 3 : form < 9 ? 4 : 5;
                if ((form == 2 || form == 3) && n > W) n = W; if (form >= 4) n = W;
                s.set("form", form_name(form)); s.setu("n", n);
                static const char* kinds[6] = {"end_flush", "start_flush", "both", "mid", "straddle", "aligned"};
                unsigned kc = (unsigned)r.below(focus_val ? 12 : 8); const char* kind = kinds[kc < 3 ? 0 : kc < 5 ? 1 : kc == 5 ? 2 : kc == 6 ? 4 : 3];
                unsigned d = r.chance(1, 3) ? (unsigned)r.below(W + 1) : 0;
                char bad = store ? (r.chance(1, 2) ? 'N' : r.chance(1, 2) ? 'R' : 'H') : (r.chance(2, 3) ? 'N' : 'H');
                place(s, t, n, form == 1 || form == 3 || form == 5, store, kind, 1 + (unsigned)r.below(6), d, bad);
                if (!store && r.chance(1, 3)) { Step f; f.op = "fill"; f.setu("p", s.unum("p")); f.setu("len", (std::uint64_t)t->width * t->elem); f.setu("tag", r.below(1u << 24)); f.setu("cls", 1 + r.below(6)); f.setu("e", t->elem); out.steps.push_back(f); }
                unsigned fk = (unsigned)r.below(10);
                if ((fmask & 1) && fk < 3) s.set("fault", "watch");
                else if ((fmask & 2) && store && fk < (tier == "thorough" ? 5u : 3u)) { s.set("fault", "neigh"); s.setu("k", r.below(4096)); s.setu("ntag", r.below(1u << 20)); }
                else s.set("fault", "none");
            } else if (w < 84 && t->has_gather) {
                bool sc = r.chance(1, 2); s.op = sc ? "scatter" : "gather"; bool ct = r.chance(1, 3); if (ct && n > W) n = W;
                bool gdef = !ct && r.chance(1, 8); if (gdef) n = W;
                s.set("form", ct ? ((!sc && t->gather_ded && r.chance(1, 2)) ? "ded" : "ct") : gdef ? "def" : "rt"); s.setu("n", n); gs_indices(s, t, n, (unsigned)r.below(8), r.next() % 1000, sc);
                if (!sc && r.chance(1, 3)) { const std::size_t spots[4] = {3 * PG - 256, 4 * PG, 4 * PG + 512, 1 * PG};
                    for (std::size_t sp : spots) { Step f; f.op = "fill"; f.setu("p", sp); f.setu("len", 256); f.setu("tag", r.below(1u << 24)); f.setu("cls", 1 + r.below(6)); f.setu("e", t->elem); out.steps.push_back(f); } }
                if ((fmask & 2) && sc && r.chance(1, 3)) { s.set("fault", "neigh"); s.setu("k", r.below(4096)); s.setu("ntag", r.below(1u << 20)); } else s.set("fault", "none");
            } else if (w < 88) { s.op = "fromarr"; s.setu("n", W); place(s, t, W, false, false, r.chance(1, 2) ? "end_flush" : "start_flush", 1 + (unsigned)r.below(6), 0, 'N'); }
            else if (w < 91) { s.op = "toarr"; }
            else if (w < 96) { s.op = "extract"; s.setu("lane", r.below(W));
                if (r.chance(1, 2)) { Step q; q.op = "setreg"; q.setu("r", s.unum("r")); q.setu("tag", r.below(1u << 24)); q.setu("cls", 0); q.setu("e", t->elem); q.setu("lane", s.unum("lane")); q.setu("spec", r.below(8)); out.steps.push_back(q); } }
            else { s.op = "insert"; s.setu("lane", r.below(W)); s.setu("tag", r.below(1u << 24)); if (r.chance(1, 2)) s.setu("spec", r.below(8)); }
            out.steps.push_back(s);
        }
    }

    std::string extra_json() override {
        std::vector<std::string> tn; for (auto t : types) tn.push_back(t->name);
        return "{\"types\":" + json_strlist(tn) + ",\"watch_oracle_active\":" + (watch_ok ? "true" : "false") + ",\"calibration\":\"" + json_escape(calib) + "\",\"cache_lines\":[" +
               std::to_string(pf->line[0]) + "," + std::to_string(pf->line[1]) + "," + std::to_string(pf->line[2]) + "],\"sweep_cases\":" + std::to_string(sweep.size() + pfsweep.size()) + "}";
    }
};

struct Boot { int argc; char** argv; int rc; };
void* engine_thread(void* a) {
    // timer signals must be handled by THIS thread (the handler longjmps into this thread's stack): main keeps SIGALRM blocked
    sigset_t m; sigemptyset(&m); sigaddset(&m, SIGALRM); sigaddset(&m, SIGPROF); pthread_sigmask(SIG_UNBLOCK, &m, nullptr);
    Boot* b = (Boot*)a; static MemEngine e; b->rc = worker_main(e, b->argc, b->argv); return nullptr;
}

} // namespace

int main(int argc, char** argv) {
    ensure_no_aslr(argv);
    // the engine runs on a stack at a fixed address so that stack residues and instruction counts replay exactly
    void* stk = mmap((void*)STACK_BASE, STACK_SIZE, PROT_READ | PROT_WRITE, MAP_PRIVATE | MAP_ANONYMOUS | MAP_FIXED_NOREPLACE, -1, 0);
    if (stk != (void*)STACK_BASE) { std::printf("E {\"error\":\"cannot map fixed engine stack\"}\n"); return 2; }
    { sigset_t m; sigemptyset(&m); sigaddset(&m, SIGALRM); sigaddset(&m, SIGPROF); pthread_sigmask(SIG_BLOCK, &m, nullptr); }
    Boot b{argc, argv, 2}; pthread_attr_t at; pthread_attr_init(&at); pthread_attr_setstack(&at, stk, STACK_SIZE);
    pthread_t th; if (pthread_create(&th, &at, engine_thread, &b) != 0) { std::printf("E {\"error\":\"cannot start engine thread\"}\n"); return 2; }
    pthread_join(th, nullptr);
    return b.rc;
}

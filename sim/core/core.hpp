// Common simulator core: PRNG, plan (= replay) representation, log hashing,
// counters, worker main loop.  Shared by the three engines (heap, mem, fenv).
//
// Rules enforced here (DESIGN 2.1):
//   * the PRNG is used only while GENERATING a plan; execution is a pure
//     function of (plan, binary);
//   * logging never draws random numbers and never reads a clock;
//   * one run = one seed = one plan = one log hash.
#ifndef VERIF_SIM_CORE_HPP
#define VERIF_SIM_CORE_HPP

#include <cstdint>
#include <cstdarg>
#include <cstdio>
#include <cstdlib>
#include <cstring>
#include <string>
#include <vector>
#include <map>
#include <unordered_set>
#include <utility>
#include <algorithm>
#include <unistd.h>
#include <csignal>
#include <sys/personality.h>

namespace sim {

//---------------------------------------------------------------- PRNG
inline std::uint64_t splitmix64(std::uint64_t& s) {
    std::uint64_t z = (s += 0x9E3779B97F4A7C15ull);
    z = (z ^ (z >> 30)) * 0xBF58476D1CE4E5B9ull;
    z = (z ^ (z >> 27)) * 0x94D049BB133111EBull;
    return z ^ (z >> 31);
}

inline std::uint64_t fnv1a(const void* p, std::size_t n, std::uint64_t h = 0xcbf29ce484222325ull) {
    const unsigned char* c = static_cast<const unsigned char*>(p);
    for (std::size_t i = 0; i < n; ++i) { h ^= c[i]; h *= 0x100000001b3ull; }
    return h;
}
inline std::uint64_t fnv1a(const std::string& s, std::uint64_t h = 0xcbf29ce484222325ull) {
    return fnv1a(s.data(), s.size(), h);
}

struct Rng {
    std::uint64_t s[4];
    explicit Rng(std::uint64_t seed) { std::uint64_t x = seed; for (auto& v : s) v = splitmix64(x); }
    static std::uint64_t rotl(std::uint64_t x, int k) { return (x << k) | (x >> (64 - k)); }
    std::uint64_t next() {
        const std::uint64_t r = rotl(s[1] * 5, 7) * 9, t = s[1] << 17;
        s[2] ^= s[0]; s[3] ^= s[1]; s[1] ^= s[2]; s[0] ^= s[3]; s[2] ^= t; s[3] = rotl(s[3], 45);
        return r;
    }
    // uniform in [0,n) ; n==0 -> 0
    std::uint64_t below(std::uint64_t n) { return n ? next() % n : 0; }
    // uniform in [lo,hi]
    std::int64_t range(std::int64_t lo, std::int64_t hi) { return lo + (std::int64_t)below((std::uint64_t)(hi - lo + 1)); }
    bool chance(unsigned num, unsigned den) { return below(den) < num; }
    template<class T, std::size_t N> const T& pick(const T (&a)[N]) { return a[below(N)]; }
    template<class T> const T& pick(const std::vector<T>& v) { return v[below(v.size())]; }
};

// seed of run i of engine E in batch VERIF_SEED
inline std::uint64_t run_seed(std::uint64_t batch, const char* engine, std::uint64_t i) {
    std::uint64_t x = batch ^ fnv1a(engine, std::strlen(engine)) ^ (i * 0xD1342543DE82EF95ull + 0x2545F4914F6CDD1Dull);
    return splitmix64(x);
}

//---------------------------------------------------------------- plan
// A step is "op key=val key=val ...".  Values never contain spaces.
struct Step {
    std::string op;
    std::vector<std::pair<std::string, std::string>> kv;

    const std::string* find(const std::string& k) const {
        for (auto& p : kv) if (p.first == k) return &p.second;
        return nullptr;
    }
    bool has(const std::string& k) const { return find(k) != nullptr; }
    std::string str(const std::string& k, const std::string& def = "") const {
        auto* v = find(k); return v ? *v : def;
    }
    std::int64_t num(const std::string& k, std::int64_t def = 0) const {
        auto* v = find(k); if (!v) return def;
        return (std::int64_t)std::strtoll(v->c_str(), nullptr, 0);
    }
    std::uint64_t unum(const std::string& k, std::uint64_t def = 0) const {
        auto* v = find(k); if (!v) return def;
        return (std::uint64_t)std::strtoull(v->c_str(), nullptr, 0);
    }
    void set(const std::string& k, const std::string& v) {
        for (auto& p : kv) if (p.first == k) { p.second = v; return; }
        kv.emplace_back(k, v);
    }
    void set(const std::string& k, std::int64_t v) { set(k, std::to_string(v)); }
    void setu(const std::string& k, std::uint64_t v) { set(k, std::to_string(v)); }
    void sethex(const std::string& k, std::uint64_t v) {
        char b[32]; std::snprintf(b, sizeof b, "0x%llx", (unsigned long long)v); set(k, b);
    }
    // comma separated list of integers (decimal or 0x..)
    std::vector<std::int64_t> list(const std::string& k) const {
        std::vector<std::int64_t> r; auto* v = find(k); if (!v || v->empty()) return r;
        const char* c = v->c_str();
        while (*c) { char* e; r.push_back((std::int64_t)std::strtoull(c, &e, 0)); if (e == c) break; c = e; if (*c == ',') ++c; }
        return r;
    }
    void setlist(const std::string& k, const std::vector<std::int64_t>& l, bool hex = false) {
        std::string s; char b[32];
        for (std::size_t i = 0; i < l.size(); ++i) {
            if (hex) std::snprintf(b, sizeof b, "0x%llx", (unsigned long long)l[i]);
            else std::snprintf(b, sizeof b, "%lld", (long long)l[i]);
            if (i) s += ','; s += b;
        }
        set(k, s);
    }
    std::string text() const {
        std::string s = op;
        for (auto& p : kv) { s += ' '; s += p.first; s += '='; s += p.second; }
        return s;
    }
    static Step parse(const std::string& line) {
        Step st; std::size_t i = 0, n = line.size();
        auto tok = [&]() { while (i < n && line[i] == ' ') ++i; std::size_t b = i; while (i < n && line[i] != ' ') ++i; return line.substr(b, i - b); };
        st.op = tok();
        for (;;) { std::string t = tok(); if (t.empty()) break; auto e = t.find('='); if (e == std::string::npos) st.kv.emplace_back(t, ""); else st.kv.emplace_back(t.substr(0, e), t.substr(e + 1)); }
        return st;
    }
};

struct Plan {
    Step head;                 // op == "plan": engine=, prop=, seed=, knobs...
    std::vector<Step> steps;
    std::string text() const {
        std::string s = head.text(); s += '\n';
        for (auto& st : steps) { s += st.text(); s += '\n'; }
        return s;
    }
    static bool read(const char* path, Plan& out) {
        FILE* f = std::fopen(path, "r"); if (!f) return false;
        std::string line; int c; bool first = true;
        auto flush = [&]() {
            if (line.empty() || line[0] == '#') { line.clear(); return; }
            Step s = Step::parse(line); line.clear();
            if (first) { out.head = s; first = false; } else out.steps.push_back(s);
        };
        while ((c = std::fgetc(f)) != EOF) { if (c == '\n') flush(); else if (c != '\r') line += (char)c; }
        flush(); std::fclose(f);
        return !first && out.head.op == "plan";
    }
};

//---------------------------------------------------------------- log
// The event log of one run.  Only its hash is kept unless `keep` is set
// (replay / --exec mode), in which case lines are also stored.
struct Log {
    std::uint64_t h = 0xcbf29ce484222325ull;
    bool keep = false;
    std::vector<std::string> lines;
    void line(const std::string& s) {
        h = fnv1a(s, h); h = fnv1a("\n", 1, h);
        if (keep) lines.push_back(s);
    }
    void linef(const char* fmt, ...) __attribute__((format(printf, 2, 3)));
};
inline void Log::linef(const char* fmt, ...) {
    char buf[1024]; va_list ap; va_start(ap, fmt); std::vsnprintf(buf, sizeof buf, fmt, ap); va_end(ap);
    line(buf);
}

//---------------------------------------------------------------- results
struct Violation {
    bool set = false;
    std::string prop;          // property id the oracle belongs to
    std::vector<std::string> sig;  // signature (stable under shrinking)
    int step = -1;
    std::string detail;        // free text (not part of the signature)
};

struct RunResult {
    Log log;
    int steps_done = 0;
    Violation v;
    std::string harness_error; // non-empty => exit 2 material, never a VIOLATION
    std::vector<std::string> observations; // logged, not judged
    void violate(const std::string& prop, int step, std::vector<std::string> sig, const std::string& detail) {
        if (v.set) return;     // first violation pins the step
        v.set = true; v.prop = prop; v.sig = std::move(sig); v.step = step; v.detail = detail;
    }
};

struct Stats {
    std::map<std::string, std::uint64_t> faults;   // fault kinds that actually FIRED
    std::map<std::string, std::uint64_t> probes;   // reach probes
    std::map<std::string, std::uint64_t> obs;      // logged-not-judged observation counters
    std::unordered_set<std::uint64_t> distinct;    // distinct non-trivial abstract cases
    std::unordered_set<std::uint64_t> distinct_all;// distinct abstract cases (trivial or not)
    std::uint64_t runs = 0, steps = 0, sweep_runs = 0;
    void case_seen(const std::string& tuple, bool nontrivial) {
        std::uint64_t h = fnv1a(tuple);
        distinct_all.insert(h);
        if (nontrivial) distinct.insert(h);
    }
};

inline std::string json_escape(const std::string& s) {
    std::string o;
    for (unsigned char c : s) {
        if (c == '"' || c == '\\') { o += '\\'; o += (char)c; }
        else if (c == '\n') o += "\\n";
        else if (c < 0x20) { char b[8]; std::snprintf(b, sizeof b, "\\u%04x", c); o += b; }
        else o += (char)c;
    }
    return o;
}

inline std::string json_strlist(const std::vector<std::string>& v) {
    std::string s = "[";
    for (std::size_t i = 0; i < v.size(); ++i) { if (i) s += ','; s += '"'; s += json_escape(v[i]); s += '"'; }
    return s + "]";
}
inline std::string json_map(const std::map<std::string, std::uint64_t>& m) {
    std::string s = "{"; bool f = true;
    for (auto& p : m) { if (!f) s += ','; f = false; s += '"'; s += json_escape(p.first); s += "\":"; s += std::to_string(p.second); }
    return s + "}";
}

//---------------------------------------------------------------- engine interface
struct Engine {
    virtual ~Engine() {}
    virtual const char* name() const = 0;
    // one-time set-up (arenas, handlers, calibration); returns "" or a harness error
    virtual std::string init(const std::string& prop, const std::string& tier) = 0;
    // number of systematic single-purpose sweep plans for this (prop,tier)
    virtual std::uint64_t sweep_count() = 0;
    virtual void sweep_plan(std::uint64_t i, Plan& out) = 0;
    // seeded plan; all randomness comes from rng
    virtual void generate(Rng& rng, Plan& out) = 0;
    // execute: pure function of plan
    virtual void execute(const Plan& plan, RunResult& rr, Stats& st) = 0;
    // extra json (calibration table etc.) for the summary line
    virtual std::string extra_json() { return "{}"; }
};

// Re-exec once with ASLR off so that stack residues are repeatable.
inline void ensure_no_aslr(char** argv) {
    int p = personality(0xffffffff);
    if (p != -1 && !(p & ADDR_NO_RANDOMIZE)) {
        if (std::getenv("VERIF_NO_REEXEC")) return;
        if (personality(p | ADDR_NO_RANDOMIZE) != -1) {
            setenv("VERIF_NO_REEXEC", "1", 1);
            execv("/proc/self/exe", argv);
        }
    }
}

inline void emit_violation(const char* tag, std::uint64_t runidx, std::uint64_t seed, bool sweep,
                           const Plan& plan, const RunResult& rr) {
    std::vector<std::string> lines; lines.push_back(plan.head.text());
    for (auto& s : plan.steps) lines.push_back(s.text());
    std::printf("%s {\"run\":%llu,\"seed\":%llu,\"sweep\":%s,\"prop\":\"%s\",\"sig\":%s,\"step\":%d,\"detail\":\"%s\",\"log_hash\":\"%016llx\",\"plan\":%s}\n",
        tag, (unsigned long long)runidx, (unsigned long long)seed, sweep ? "true" : "false",
        rr.v.prop.c_str(), json_strlist(rr.v.sig).c_str(), rr.v.step, json_escape(rr.v.detail).c_str(),
        (unsigned long long)rr.log.h, json_strlist(lines).c_str());
    std::fflush(stdout);
}

// Worker main.  Modes:
//   --gen  --prop P --tier T --seed S --start a --stride k --count n [--hashes] [--sweep-only|--no-sweep] [--samples m]
//   --exec <planfile> --prop P --tier T        (prints log + verdict; used by gate / shrink / replay)
//   --sweep-count
// Output (stdout), one record per line:
//   H <runidx> <loghash>                (with --hashes)
//   V {json}                            violation (run ends at first violation)
//   E {json}                            harness error
//   S {json}                            sample plan
//   Z {json}                            final summary
// Per-run watchdog: a run that does not finish within VERIF_RUN_TIMEOUT seconds (default 600) is a harness-visible
// hang.  It is reported as an E record (exit 2 material) with the run index instead of stalling the batch for hours.
inline volatile unsigned long long g_watch_run = 0;
inline void on_alarm(int) {
    char b[128]; int n = std::snprintf(b, sizeof b, "E {\"error\":\"run %llu did not finish within the per-run time limit (hang)\"}\n", (unsigned long long)g_watch_run);
    (void)!write(1, b, (size_t)n); _exit(3);
}

inline int worker_main(Engine& eng, int argc, char** argv) {
    ensure_no_aslr(argv);
    unsigned run_timeout = std::getenv("VERIF_RUN_TIMEOUT") ? (unsigned)std::atoi(std::getenv("VERIF_RUN_TIMEOUT")) : 600u;
    std::signal(SIGALRM, on_alarm);
    std::string mode, prop = "", tier = "quick", planfile;
    std::uint64_t batch = 1, start = 0, stride = 1, count = 0, samples = 0, until = ~0ull;
    bool hashes = false, sweep_only = false, no_sweep = false;
    for (int i = 1; i < argc; ++i) {
        std::string a = argv[i];
        auto nx = [&]() -> const char* { return (i + 1 < argc) ? argv[++i] : ""; };
        if (a == "--gen" || a == "--sweep-count") mode = a;
        else if (a == "--exec") { mode = a; planfile = nx(); }
        else if (a == "--prop") prop = nx();
        else if (a == "--tier") tier = nx();
        else if (a == "--seed") batch = std::strtoull(nx(), nullptr, 0);
        else if (a == "--start") start = std::strtoull(nx(), nullptr, 0);
        else if (a == "--stride") stride = std::strtoull(nx(), nullptr, 0);
        else if (a == "--count") count = std::strtoull(nx(), nullptr, 0);
        else if (a == "--samples") samples = std::strtoull(nx(), nullptr, 0);
        else if (a == "--until") until = std::strtoull(nx(), nullptr, 0);     // stop after this run index (history replay)
        else if (a == "--hashes") hashes = true;
        else if (a == "--sweep-only") sweep_only = true;
        else if (a == "--no-sweep") no_sweep = true;
    }
    static char obuf[1 << 16]; std::setvbuf(stdout, obuf, _IOFBF, sizeof obuf);
    std::string err = eng.init(prop, tier);
    if (!err.empty()) { std::printf("E {\"error\":\"%s\"}\n", json_escape(err).c_str()); std::fflush(stdout); return 2; }

    if (mode == "--sweep-count") { std::printf("%llu\n", (unsigned long long)eng.sweep_count()); return 0; }

    if (mode == "--exec") {
        Plan plan; if (!Plan::read(planfile.c_str(), plan)) { std::printf("E {\"error\":\"cannot read plan\"}\n"); return 2; }
        RunResult rr; rr.log.keep = true; Stats st;
        alarm(run_timeout);
        eng.execute(plan, rr, st);
        alarm(0);
        for (auto& l : rr.log.lines) std::printf("L %s\n", l.c_str());
        for (auto& o : rr.observations) std::printf("O %s\n", o.c_str());
        if (!rr.harness_error.empty()) { std::printf("E {\"error\":\"%s\"}\n", json_escape(rr.harness_error).c_str()); std::fflush(stdout); return 2; }
        if (rr.v.set) emit_violation("V", 0, plan.head.unum("seed"), false, plan, rr);
        std::printf("Z {\"log_hash\":\"%016llx\",\"steps\":%d,\"violation\":%s,\"faults\":%s,\"probes\":%s}\n",
            (unsigned long long)rr.log.h, rr.steps_done, rr.v.set ? "true" : "false",
            json_map(st.faults).c_str(), json_map(st.probes).c_str());
        std::fflush(stdout);
        return rr.v.set ? 1 : 0;
    }

    if (mode != "--gen") { std::fprintf(stderr, "usage: see core.hpp\n"); return 2; }

    Stats st; std::uint64_t nviol = 0, nerr = 0, nhangs = 0;
    std::map<std::string, std::uint64_t> sigcount;
    const std::uint64_t nsweep = no_sweep ? 0 : eng.sweep_count();
    std::uint64_t emitted_samples = 0;
    // run index space: [0,nsweep) = sweep plans, [nsweep, nsweep+count) = seeded plans
    const std::uint64_t total = sweep_only ? nsweep : nsweep + count;
    for (std::uint64_t i = start; i < total && i <= until; i += stride) {
        Plan plan; bool sweep = i < nsweep; std::uint64_t seed = 0;
        if (sweep) { eng.sweep_plan(i, plan); plan.head.setu("sweep", i); }
        else { seed = run_seed(batch, (std::string(eng.name()) + ":" + prop).c_str(), i - nsweep); Rng rng(seed); eng.generate(rng, plan); plan.head.setu("seed", seed); }
        g_watch_run = i; std::fflush(stdout); alarm(run_timeout);
        RunResult rr; eng.execute(plan, rr, st);
        alarm(0);
        st.runs++; st.steps += (std::uint64_t)rr.steps_done; if (sweep) st.sweep_runs++;
        if (hashes) std::printf("H %llu %016llx\n", (unsigned long long)i, (unsigned long long)rr.log.h);
        if (!rr.harness_error.empty()) {
            ++nerr;
            std::vector<std::string> lines; lines.push_back(plan.head.text()); for (auto& s : plan.steps) lines.push_back(s.text());
            std::printf("E {\"run\":%llu,\"seed\":%llu,\"error\":\"%s\",\"plan\":%s}\n", (unsigned long long)i, (unsigned long long)seed,
                        json_escape(rr.harness_error).c_str(), json_strlist(lines).c_str());
            std::fflush(stdout);
            if (nerr > 20) break;
        }
        if (rr.v.set) {
            ++nviol;
            std::string key = rr.v.prop; for (auto& s : rr.v.sig) { key += '|'; key += s; }
            std::uint64_t& c = sigcount[key];
            if (c < 3 || until != ~0ull) emit_violation("V", i, seed, sweep, plan, rr);   // at most 3 full plans per signature per worker
            ++c;
            // every hang costs its full time limit: after a few of them this worker has established the violation and stops early
            if (rr.v.sig.size() > 1 && rr.v.sig[1] == "hang" && ++nhangs >= 3 && until == ~0ull) { std::printf("O worker stopped early after %llu hanging calls\n", (unsigned long long)nhangs); break; }
        }
        if (emitted_samples < samples && !rr.v.set && (sweep ? (i % 97 == 0) : true) ) {
            std::vector<std::string> lines; lines.push_back(plan.head.text()); for (auto& s : plan.steps) lines.push_back(s.text());
            std::printf("S {\"run\":%llu,\"seed\":%llu,\"plan\":%s}\n", (unsigned long long)i, (unsigned long long)seed, json_strlist(lines).c_str());
            ++emitted_samples;
        }
    }
    std::string dist = "[";
    { bool f = true; for (auto h : st.distinct) { if (!f) dist += ','; f = false; char b[24]; std::snprintf(b, sizeof b, "\"%llx\"", (unsigned long long)h); dist += b; } }
    dist += "]";
    std::printf("Z {\"runs\":%llu,\"sweep_runs\":%llu,\"steps\":%llu,\"violations\":%llu,\"errors\":%llu,\"sigcount\":%s,\"faults\":%s,\"probes\":%s,\"obs\":%s,\"distinct_all\":%llu,\"distinct\":%s,\"extra\":%s}\n",
        (unsigned long long)st.runs, (unsigned long long)st.sweep_runs, (unsigned long long)st.steps,
        (unsigned long long)nviol, (unsigned long long)nerr, json_map(sigcount).c_str(),
        json_map(st.faults).c_str(), json_map(st.probes).c_str(), json_map(st.obs).c_str(),
        (unsigned long long)st.distinct_all.size(), dist.c_str(), eng.extra_json().c_str());
    std::fflush(stdout);
    return 0;
}

} // namespace sim
#endif

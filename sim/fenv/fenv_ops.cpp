// Per-configuration translation unit: REAL AVEL code.  AVEL header is the first include
// so that a header that is not self-contained in this configuration fails the build.
#include <avel/Avel.hpp>

#include <cstring>
#include <cstdint>
#include "fenv_iface.hpp"

#define NOINL __attribute__((noinline))

namespace {

template<class V> inline V mk(const void* p) {
    typename V::primitive x; std::memcpy(&x, p, sizeof x); return V{x};
}
template<class V> inline void put(void* o, V v) {
    typename V::primitive x = avel::decay(v); std::memcpy(o, &x, sizeof x);
}

template<class V> struct R {
    static NOINL void add(const void* a, const void* b, void* o) { put<V>(o, mk<V>(a) + mk<V>(b)); }
    static NOINL void sub(const void* a, const void* b, void* o) { put<V>(o, mk<V>(a) - mk<V>(b)); }
    static NOINL void mul(const void* a, const void* b, void* o) { put<V>(o, mk<V>(a) * mk<V>(b)); }
    static NOINL void div(const void* a, const void* b, void* o) { put<V>(o, mk<V>(a) / mk<V>(b)); }
    static NOINL void add_eq(const void* a, const void* b, void* o) { V t = mk<V>(a); t += mk<V>(b); put<V>(o, t); }
    static NOINL void sub_eq(const void* a, const void* b, void* o) { V t = mk<V>(a); t -= mk<V>(b); put<V>(o, t); }
    static NOINL void mul_eq(const void* a, const void* b, void* o) { V t = mk<V>(a); t *= mk<V>(b); put<V>(o, t); }
    static NOINL void div_eq(const void* a, const void* b, void* o) { V t = mk<V>(a); t /= mk<V>(b); put<V>(o, t); }
    // value returned by the compound form (must be the updated object)
    static NOINL void div_eq_ret(const void* a, const void* b, void* o) { V t = mk<V>(a); V r = (t /= mk<V>(b)); put<V>(o, r); }
    static NOINL void preinc(const void* a, const void*, void* o) { V t = mk<V>(a); V r = ++t; (void)t; put<V>(o, r); }
    static NOINL void preinc_obj(const void* a, const void*, void* o) { V t = mk<V>(a); ++t; put<V>(o, t); }
    static NOINL void postinc(const void* a, const void*, void* o) { V t = mk<V>(a); t++; put<V>(o, t); }
    static NOINL void postinc_ret(const void* a, const void*, void* o) { V t = mk<V>(a); V r = t++; put<V>(o, r); }
    static NOINL void predec(const void* a, const void*, void* o) { V t = mk<V>(a); V r = --t; put<V>(o, r); }
    static NOINL void predec_obj(const void* a, const void*, void* o) { V t = mk<V>(a); --t; put<V>(o, t); }
    static NOINL void postdec(const void* a, const void*, void* o) { V t = mk<V>(a); t--; put<V>(o, t); }
    static NOINL void postdec_ret(const void* a, const void*, void* o) { V t = mk<V>(a); V r = t--; put<V>(o, r); }
    static NOINL void neg(const void* a, const void*, void* o) { put<V>(o, -mk<V>(a)); }
    static NOINL void pos(const void* a, const void*, void* o) { put<V>(o, +mk<V>(a)); }
    static NOINL void sqrt(const void* a, const void*, void* o) { put<V>(o, avel::sqrt(mk<V>(a))); }
    static NOINL void ceil(const void* a, const void*, void* o) { put<V>(o, avel::ceil(mk<V>(a))); }
    static NOINL void floor(const void* a, const void*, void* o) { put<V>(o, avel::floor(mk<V>(a))); }
    static NOINL void trunc(const void* a, const void*, void* o) { put<V>(o, avel::trunc(mk<V>(a))); }
    static NOINL void round(const void* a, const void*, void* o) { put<V>(o, avel::round(mk<V>(a))); }
    static NOINL void nearbyint(const void* a, const void*, void* o) { put<V>(o, avel::nearbyint(mk<V>(a))); }
    static NOINL void rint(const void* a, const void*, void* o) { put<V>(o, avel::rint(mk<V>(a))); }
};

// scalar overloads in avel/Scalar.hpp
template<class F> struct S {
    static F ld(const void* p) { F x; std::memcpy(&x, p, sizeof x); return x; }
    static void st(void* o, F x) { std::memcpy(o, &x, sizeof x); }
    static NOINL void sqrt(const void* a, const void*, void* o) { st(o, avel::sqrt(ld(a))); }
    static NOINL void ceil(const void* a, const void*, void* o) { st(o, avel::ceil(ld(a))); }
    static NOINL void floor(const void* a, const void*, void* o) { st(o, avel::floor(ld(a))); }
    static NOINL void trunc(const void* a, const void*, void* o) { st(o, avel::trunc(ld(a))); }
    static NOINL void round(const void* a, const void*, void* o) { st(o, avel::round(ld(a))); }
    static NOINL void nearbyint(const void* a, const void*, void* o) { st(o, avel::nearbyint(ld(a))); }
    static NOINL void rint(const void* a, const void*, void* o) { st(o, avel::rint(ld(a))); }
};

#define VOPS(V, NAME, ELEM) \
    {NAME, "add", V::width, ELEM, 2, &R<V>::add}, {NAME, "sub", V::width, ELEM, 2, &R<V>::sub}, \
    {NAME, "mul", V::width, ELEM, 2, &R<V>::mul}, {NAME, "div", V::width, ELEM, 2, &R<V>::div}, \
    {NAME, "add_eq", V::width, ELEM, 2, &R<V>::add_eq}, {NAME, "sub_eq", V::width, ELEM, 2, &R<V>::sub_eq}, \
    {NAME, "mul_eq", V::width, ELEM, 2, &R<V>::mul_eq}, {NAME, "div_eq", V::width, ELEM, 2, &R<V>::div_eq}, \
    {NAME, "div_eq_ret", V::width, ELEM, 2, &R<V>::div_eq_ret}, \
    {NAME, "preinc", V::width, ELEM, 1, &R<V>::preinc}, {NAME, "preinc_obj", V::width, ELEM, 1, &R<V>::preinc_obj}, \
    {NAME, "postinc", V::width, ELEM, 1, &R<V>::postinc}, {NAME, "postinc_ret", V::width, ELEM, 1, &R<V>::postinc_ret}, \
    {NAME, "predec", V::width, ELEM, 1, &R<V>::predec}, {NAME, "predec_obj", V::width, ELEM, 1, &R<V>::predec_obj}, \
    {NAME, "postdec", V::width, ELEM, 1, &R<V>::postdec}, {NAME, "postdec_ret", V::width, ELEM, 1, &R<V>::postdec_ret}, \
    {NAME, "neg", V::width, ELEM, 1, &R<V>::neg}, {NAME, "pos", V::width, ELEM, 1, &R<V>::pos}, \
    {NAME, "sqrt", V::width, ELEM, 1, &R<V>::sqrt}, \
    {NAME, "ceil", V::width, ELEM, 1, &R<V>::ceil}, {NAME, "floor", V::width, ELEM, 1, &R<V>::floor}, \
    {NAME, "trunc", V::width, ELEM, 1, &R<V>::trunc}, {NAME, "round", V::width, ELEM, 1, &R<V>::round}, \
    {NAME, "nearbyint", V::width, ELEM, 1, &R<V>::nearbyint}, {NAME, "rint", V::width, ELEM, 1, &R<V>::rint}

#define SOPS(F, NAME, ELEM) \
    {NAME, "sqrt", 1, ELEM, 1, &S<F>::sqrt}, \
    {NAME, "ceil", 1, ELEM, 1, &S<F>::ceil}, {NAME, "floor", 1, ELEM, 1, &S<F>::floor}, \
    {NAME, "trunc", 1, ELEM, 1, &S<F>::trunc}, {NAME, "round", 1, ELEM, 1, &S<F>::round}, \
    {NAME, "nearbyint", 1, ELEM, 1, &S<F>::nearbyint}, {NAME, "rint", 1, ELEM, 1, &S<F>::rint}

const FOp table[] = {
    SOPS(float, "scalar32f", 4), SOPS(double, "scalar64f", 8),
    VOPS(avel::vec1x32f, "vec1x32f", 4), VOPS(avel::vec1x64f, "vec1x64f", 8),
#if defined(AVEL_SSE2)
    VOPS(avel::vec4x32f, "vec4x32f", 4), VOPS(avel::vec2x64f, "vec2x64f", 8),
#endif
#if defined(AVEL_AVX2)
    VOPS(avel::vec8x32f, "vec8x32f", 4), VOPS(avel::vec4x64f, "vec4x64f", 8),
#endif
#if defined(AVEL_AVX512F)
    VOPS(avel::vec16x32f, "vec16x32f", 4), VOPS(avel::vec8x64f, "vec8x64f", 8),
#endif
};

} // namespace

const FOp* fenv_registry(std::size_t* n) { *n = sizeof table / sizeof table[0]; return table; }

// SimFenv: the thread's floating-point environment is the simulated, fault-injected
// component.  A plan is a history of environment jumps (setenv) and real AVEL calls.
// Oracles after every call: environment preserved (C11), values equal to the scalar
// hardware op (C10) / glibc libm (C11) executed under the same ambient mode, lanes
// independent (rotation equivariance).
#include "../core/core.hpp"
#include "fenv_iface.hpp"
#include <cmath>
#include <csetjmp>
#include <csignal>

using namespace sim;

namespace {

//------------------------------------------------------------ FP environment seam
inline std::uint32_t get_mxcsr() { std::uint32_t v; asm volatile("stmxcsr %0" : "=m"(v) :: "memory"); return v; }
inline void set_mxcsr(std::uint32_t v) { asm volatile("ldmxcsr %0" :: "m"(v) : "memory"); }
inline std::uint16_t get_cw() { std::uint16_t v; asm volatile("fnstcw %0" : "=m"(v) :: "memory"); return v; }
inline void set_cw(std::uint16_t v) { asm volatile("fldcw %0" :: "m"(v) : "memory"); }
const std::uint32_t MX_CTRL = 0xFFC0;          // DAZ(6) masks(7-12) RC(13-14) FTZ(15)
const std::uint32_t MX_DEFAULT = 0x1F80;
const std::uint16_t CW_DEFAULT = 0x037F;
const char* RCNAME[4] = {"nearest", "down", "up", "zero"};

// xrc: rounding-control field of the x87 control word; -1 = the same as MXCSR.RC (what fesetround() gives).  Code that sets the SSE
// mode directly (_MM_SET_ROUNDING_MODE, _mm_setcsr) leaves the two fields different; SSE arithmetic and libm follow MXCSR.
struct Env { int rc = 0, ftz = 0, daz = 0, xrc = -1; };
void apply_env(const Env& e) {
    std::uint32_t mx = MX_DEFAULT | ((std::uint32_t)e.rc << 13) | (e.ftz ? 0x8000u : 0) | (e.daz ? 0x40u : 0);
    set_mxcsr(mx);
    set_cw((std::uint16_t)((CW_DEFAULT & ~0x0C00) | ((e.xrc < 0 ? e.rc : e.xrc) << 10)));
}

// A signal raised inside an AVEL operation (SIGFPE from an integer division, SIGILL, SIGSEGV) must not kill the worker:
// it is converted into a violation of the property the operation serves.
sigjmp_buf g_opjmp; volatile int g_opjmp_armed = 0; volatile int g_opsig = 0;
void on_op_signal(int sig) { if (g_opjmp_armed) { g_opsig = sig; g_opjmp_armed = 0; siglongjmp(g_opjmp, 1); } std::signal(sig, SIG_DFL); raise(sig); }
template<class F> inline bool guarded(F f) {
    if (sigsetjmp(g_opjmp, 0) == 0) { g_opjmp_armed = 1; f(); g_opjmp_armed = 0; return true; }
    return false;
}

//------------------------------------------------------------ fn table
struct FnInfo { const char* name; int ref; const char* prop; bool rounding; };
const FnInfo FNS[] = {
    {"add", RF_ADD, "C10", false}, {"sub", RF_SUB, "C10", false}, {"mul", RF_MUL, "C10", false}, {"div", RF_DIV, "C10", false},
    {"add_eq", RF_ADD, "C10", false}, {"sub_eq", RF_SUB, "C10", false}, {"mul_eq", RF_MUL, "C10", false},
    {"div_eq", RF_DIV, "C10", false}, {"div_eq_ret", RF_DIV, "C10", false},
    {"preinc", RF_INC, "C10", false}, {"preinc_obj", RF_INC, "C10", false}, {"postinc", RF_INC, "C10", false}, {"postinc_ret", RF_ID, "C10", false},
    {"predec", RF_DEC, "C10", false}, {"predec_obj", RF_DEC, "C10", false}, {"postdec", RF_DEC, "C10", false}, {"postdec_ret", RF_ID, "C10", false},
    {"neg", RF_NEG, "C10", false}, {"pos", RF_ID, "C10", false}, {"sqrt", RF_SQRT, "C10", false},
    {"ceil", RF_CEIL, "C11", true}, {"floor", RF_FLOOR, "C11", true}, {"trunc", RF_TRUNC, "C11", true},
    {"round", RF_ROUND, "C11", true}, {"nearbyint", RF_NEARBYINT, "C11", true}, {"rint", RF_RINT, "C11", true},
};
const FnInfo* fninfo(const std::string& n) { for (auto& f : FNS) if (n == f.name) return &f; return nullptr; }

//------------------------------------------------------------ input classes
template<class U> struct FT;
template<> struct FT<std::uint32_t> { static const int MB = 23, EB = 8; };
template<> struct FT<std::uint64_t> { static const int MB = 52, EB = 11; };

template<class U> const char* classify(U b) {
    const int MB = FT<U>::MB, EB = FT<U>::EB; const int bias = (1 << (EB - 1)) - 1;
    const U one = 1; int e = (int)((b >> MB) & ((one << EB) - 1)); U m = b & ((one << MB) - 1);
    if (e == (1 << EB) - 1) return m ? "nan" : "inf";
    if (e == 0) return m ? "sub" : "zero";
    if (e >= bias + MB + 11) return "huge";
    if (e >= bias + MB) return "bigint";
    if (e < bias - 1) return "lt_half";
    if (e == bias - 1) return m ? "half_to_one" : "half";
    int shift = MB - (e - bias); U frac = m & ((one << shift) - 1), half = one << (shift - 1);
    if (frac == 0) return "int";
    if (frac == half) return "tie";
    if (frac == half - 1 || frac == half + 1) return "near_tie";
    if (frac == 1 || frac == ((one << shift) - 1)) return "near_int";
    if (e >= bias + MB - 2) return "frac_big";
    return "frac";
}
template<class U> bool is_nan(U b) { const int MB = FT<U>::MB, EB = FT<U>::EB; const U one = 1; return ((b >> MB) & ((one << EB) - 1)) == ((one << EB) - 1) && (b & ((one << MB) - 1)); }
template<class U> bool is_zero(U b) { return (b << 1) == 0; }
template<class U> bool is_sub(U b) { const int MB = FT<U>::MB, EB = FT<U>::EB; const U one = 1; return ((b >> MB) & ((one << EB) - 1)) == 0 && (b & ((one << MB) - 1)); }

// Deterministic stratified list (no RNG): every exponent x boundary mantissas x sign,
// ties and near-ties for small integers, neighbourhoods of 2^MB, 2^(MB+1), 2^31, 2^32, 2^63, 2^64.
template<class U> std::vector<U> stratified(bool dense) {
    const int MB = FT<U>::MB, EB = FT<U>::EB; const int bias = (1 << (EB - 1)) - 1; const U one = 1;
    const U mm = (one << MB) - 1;
    std::vector<U> v;
    const U mant[] = {0, 1, 2, mm, mm - 1, one << (MB - 1), (one << (MB - 1)) - 1, (one << (MB - 1)) + 1, (U)(0x5555555555555555ull & mm), (U)(0xAAAAAAAAAAAAAAAAull & mm)};
    for (int e = 0; e < (1 << EB); ++e) {
        bool near = (e <= 2) || (e >= (1 << EB) - 3) || (e >= bias - 3 && e <= bias + MB + 13) || (e >= bias + 30 && e <= bias + 33) || (e >= bias + 62 && e <= bias + 65);
        if (!near && !dense && (e % 16)) continue;
        if (!near && dense && EB == 11 && (e % 4)) continue;
        for (U m : mant) for (int s = 0; s < 2; ++s) v.push_back(((U)s << (MB + EB)) | ((U)e << MB) | m);
    }
    // k + f for small k, f in {.5, .5-ulp, .5+ulp, ulp, 1-ulp}
    for (int e = bias; e < bias + MB; ++e) {
        int shift = MB - (e - bias); U half = one << (shift - 1), fm = (one << shift) - 1;
        U ks[] = {0, one << shift, (mm & ~fm), (mm & ~fm) - (one << shift), (U)(0x3333333333333333ull & mm & ~fm)};
        U fs[] = {half, half - 1, half + 1, 1, fm, 0};
        for (U k : ks) for (U f : fs) for (int s = 0; s < 2; ++s) { if (k > mm) continue; v.push_back(((U)s << (MB + EB)) | ((U)e << MB) | ((k & ~fm & mm) | (f & fm))); }
    }
    return v;
}

struct OpRef { const FOp* op; const FnInfo* fi; };

struct FenvEngine : Engine {
    std::string prop, tier;
    std::vector<OpRef> ops;          // ops in focus for this property
    std::vector<OpRef> all_ops;
    std::vector<const AOp*> api;     // broad public-API slice (environment preservation / independence only)
    std::vector<std::string> types;
    std::vector<std::uint32_t> L32; std::vector<std::uint64_t> L64;
    unsigned sweep_steps = 32;
    std::uint64_t sweep_total = 0;
    struct SweepSeg { std::size_t op; int rc; std::uint64_t first, blocks; };
    std::vector<SweepSeg> segs;

    const char* name() const override { return "fenv"; }

    std::string init(const std::string& p, const std::string& t) override {
        prop = p; tier = t;
        { struct sigaction sa; std::memset(&sa, 0, sizeof sa); sa.sa_handler = on_op_signal; sa.sa_flags = SA_NODEFER; sigaction(SIGFPE, &sa, nullptr); sigaction(SIGILL, &sa, nullptr); sigaction(SIGSEGV, &sa, nullptr); sigaction(SIGBUS, &sa, nullptr); }
        std::size_t n; const FOp* tab = fenv_registry(&n);
        for (std::size_t i = 0; i < n; ++i) {
            const FnInfo* fi = fninfo(tab[i].fn);
            if (!fi) return std::string("unknown fn in registry: ") + tab[i].fn;
            all_ops.push_back({&tab[i], fi});
            if (prop.empty() || prop == fi->prop) ops.push_back({&tab[i], fi});
            if (std::find(types.begin(), types.end(), tab[i].type) == types.end()) types.push_back(tab[i].type);
        }
        if (ops.empty()) return "no ops for property " + prop;
        if (prop == "C11" || prop.empty()) {
            typedef const AOp* (*PF)(std::size_t*);
            PF parts[] = {fenv_api_part0, fenv_api_part1, fenv_api_part2, fenv_api_part3, fenv_api_part4, fenv_api_part5, fenv_api_part6, fenv_api_part7, fenv_api_part8, fenv_api_part9};
            for (PF f : parts) { std::size_t k; const AOp* t_ = f(&k); for (std::size_t i = 0; i < k; ++i) api.push_back(&t_[i]); }
        }
        bool dense = tier == "thorough";
        L32 = stratified<std::uint32_t>(dense); L64 = stratified<std::uint64_t>(dense);
        // reference self-check: libm vs integer model in all four modes (a libm surprise is a
        // harness abort, never an alarm)
        for (int rc = 0; rc < 4; ++rc) {
            Env e; e.rc = rc; apply_env(e);
            for (int fn = RF_CEIL; fn <= RF_RINT; ++fn) {
                for (auto b : L32) { auto r = ref32(fn, b, 0), m = imodel32(fn, b, rc);
                    if (!(r == m || (is_zero(r) && is_zero(m)) || (is_nan(r) && is_nan(m)))) { apply_env(Env()); char buf[160]; std::snprintf(buf, sizeof buf, "reference self-check failed f32 fn=%d rc=%d x=%08x libm=%08x model=%08x", fn, rc, b, r, m); return buf; } }
                for (auto b : L64) { auto r = ref64(fn, b, 0), m = imodel64(fn, b, rc);
                    if (!(r == m || (is_zero(r) && is_zero(m)) || (is_nan(r) && is_nan(m)))) { apply_env(Env()); char buf[200]; std::snprintf(buf, sizeof buf, "reference self-check failed f64 fn=%d rc=%d x=%016llx libm=%016llx model=%016llx", fn, rc, (unsigned long long)b, (unsigned long long)r, (unsigned long long)m); return buf; } }
            }
        }
        apply_env(Env());
        // sweep layout: every (op in focus, rc) x blocks covering the stratified list
        sweep_total = 0;
        for (std::size_t i = 0; i < ops.size(); ++i) {
            std::uint64_t K = ops[i].op->elem == 4 ? L32.size() : L64.size();
            std::uint64_t per = (std::uint64_t)sweep_steps * ops[i].op->width;
            std::uint64_t blocks = (K + per - 1) / per;
            // binary operations: every operand a is paired with `pairings` different partners b (1 quick, 12 thorough)
            if (ops[i].op->arity == 2) blocks *= (tier == "thorough" ? 12 : 1);
            for (int rc = 0; rc < 4; ++rc) { segs.push_back({i, rc, sweep_total, blocks}); sweep_total += blocks; }
        }
        if (std::getenv("VERIF_EXHAUSTIVE") && (prop == "C11" || prop.empty())) {
            // the widest 32-bit float vector of the configuration plus vec4x32f (the type with the hand-written SSE2 emulation)
            std::string widest; unsigned ww = 0; for (auto& o : ops) if (o.op->elem == 4 && std::strncmp(o.op->type, "vec", 3) == 0 && o.op->width > ww) { ww = o.op->width; widest = o.op->type; }
            for (auto& o : ops) if (o.fi->rounding && o.op->elem == 4 && (widest == o.op->type || std::string("vec4x32f") == o.op->type)) exh_ops.push_back(&o);
        }
        return "";
    }

    // exhaustive float32 sweeps (thorough tier, selected configurations): every one of the 2^32 bit patterns through
    // each of the six rounding functions under each of the four modes, for the 32-bit float types chosen in init()
    std::vector<const OpRef*> exh_ops; static const unsigned EXH_CHUNK_BITS = 20;
    std::uint64_t exh_plans() const { return (std::uint64_t)exh_ops.size() * 4 * (1ull << (32 - EXH_CHUNK_BITS)); }
    void exh_plan(std::uint64_t idx, Plan& out) {
        const std::uint64_t chunks = 1ull << (32 - EXH_CHUNK_BITS);
        const OpRef* o = exh_ops[(std::size_t)(idx / (4 * chunks))]; int rc = (int)((idx / chunks) % 4); std::uint64_t chunk = idx % chunks;
        out.head.op = "plan"; out.head.set("engine", "fenv"); out.head.set("prop", prop); out.head.set("kind", "exhaustive");
        Step e; e.op = "setenv"; e.set("rc", rc); e.set("ftz", 0); e.set("daz", 0); out.steps.push_back(e);
        Step c; c.op = "callrange"; c.set("fn", o->op->fn); c.set("type", o->op->type); c.sethex("lo", chunk << EXH_CHUNK_BITS); c.setu("count", 1ull << EXH_CHUNK_BITS); out.steps.push_back(c);
    }
    static const unsigned API_STEPS = 32;
    std::uint64_t api_sweep_plans() const { return api.empty() ? 0 : (api.size() * 8 + API_STEPS - 1) / API_STEPS; }
    std::uint64_t sweep_count() override { return sweep_total + api_sweep_plans() + exh_plans(); }
    // every (type, public operation) once under each of the 4 rounding modes x {FTZ/DAZ off, on}
    void api_sweep_plan(std::uint64_t idx, Plan& out) {
        out.head.op = "plan"; out.head.set("engine", "fenv"); out.head.set("prop", prop); out.head.set("kind", "sweep_api");
        int last_env = -1;
        for (unsigned s = 0; s < API_STEPS; ++s) {
            std::uint64_t k = idx * API_STEPS + s; if (k >= api.size() * 8) break;
            const AOp* o = api[(std::size_t)(k / 8)]; int env = (int)(k % 8);
            if (env != last_env) { Step e; e.op = "setenv"; e.set("rc", env & 3); e.set("ftz", env >> 2); e.set("daz", env >> 2); out.steps.push_back(e); last_env = env; }
            Step c; c.op = "api"; c.set("fn", o->fn); c.set("type", o->type); c.setu("ta", k * 2 + 1); c.setu("tb", k * 7 + 3); out.steps.push_back(c);
        }
    }

    static std::string hexlist32(const std::vector<std::uint64_t>& v) { return ""; }

    void lanes_to_step(Step& s, const char* key, const std::vector<std::uint64_t>& l) {
        std::vector<std::int64_t> t(l.begin(), l.end()); s.setlist(key, t, true);
    }

    void sweep_plan(std::uint64_t idx, Plan& out) override {
        if (idx >= sweep_total + api_sweep_plans()) { exh_plan(idx - sweep_total - api_sweep_plans(), out); return; }
        if (idx >= sweep_total) { api_sweep_plan(idx - sweep_total, out); return; }
        // find segment
        std::size_t lo = 0, hi = segs.size();
        while (hi - lo > 1) { std::size_t mid = (lo + hi) / 2; if (segs[mid].first <= idx) lo = mid; else hi = mid; }
        const SweepSeg& sg = segs[lo]; const OpRef& o = ops[sg.op]; std::uint64_t blk = idx - sg.first;
        out.head.op = "plan"; out.head.set("engine", "fenv"); out.head.set("prop", prop); out.head.set("kind", "sweep");
        Step e; e.op = "setenv"; e.set("rc", sg.rc); e.set("ftz", 0); e.set("daz", 0);
        if (idx % 5 == 3) e.set("xrc", (int)((sg.rc + 1 + idx % 3) & 3));     // a fifth of the sweep: x87 RC differs from MXCSR RC
        out.steps.push_back(e);
        std::uint64_t K = o.op->elem == 4 ? L32.size() : L64.size();
        std::uint64_t per_ = (std::uint64_t)sweep_steps * o.op->width, nb = (K + per_ - 1) / per_, pairing = blk / nb; blk %= nb;
        std::uint64_t pos = blk * sweep_steps * o.op->width;
        for (unsigned s = 0; s < sweep_steps && pos < K; ++s) {
            Step c; c.op = "call"; c.set("fn", o.op->fn); c.set("type", o.op->type);
            std::vector<std::uint64_t> a, b;
            for (unsigned l = 0; l < o.op->width; ++l, ++pos) {
                std::uint64_t i = pos % K, j = (pos * (2654435761ull + 2 * pairing * 1000003ull) + blk * 40503ull + 17 + pairing * 7919ull) % K;
                a.push_back(o.op->elem == 4 ? L32[i] : L64[i]);
                b.push_back(o.op->elem == 4 ? L32[j] : L64[j]);
            }
            lanes_to_step(c, "a", a); if (o.op->arity == 2) lanes_to_step(c, "b", b);
            c.set("rot", (int)(s & 1));
            out.steps.push_back(c);
        }
    }

    std::uint64_t gen_lane(Rng& r, unsigned elem) {
        unsigned k = (unsigned)r.below(10);
        if (elem == 4) {
            if (k < 6) return r.pick(L32);
            if (k < 8) return (std::uint32_t)r.next();
            // random exponent near the interesting range, random mantissa
            std::uint32_t e = (std::uint32_t)r.range(120, 160), m = (std::uint32_t)r.next() & 0x7fffff, s = (std::uint32_t)r.below(2);
            return (s << 31) | (e << 23) | m;
        } else {
            if (k < 6) return r.pick(L64);
            if (k < 8) return r.next();
            std::uint64_t e = (std::uint64_t)r.range(1015, 1090), m = r.next() & ((1ull << 52) - 1), s = r.below(2);
            return (s << 63) | (e << 52) | m;
        }
    }

    void generate(Rng& r, Plan& out) override {
        out.head.op = "plan"; out.head.set("engine", "fenv"); out.head.set("prop", prop); out.head.set("kind", "seeded");
        // swarm: subset of types, subset of fns, which env dimensions jump in this run
        std::vector<const OpRef*> pool;
        std::uint64_t tmask = r.next() | (1ull << r.below(types.size()));
        std::uint64_t fmask = r.next() | r.next();
        bool envregistry = r.chance(1, 4);              // preservation batch: ops of the OTHER property too
        const std::vector<OpRef>& src = envregistry ? all_ops : ops;
        for (auto& o : src) {
            std::size_t ti = std::find(types.begin(), types.end(), o.op->type) - types.begin();
            std::size_t fi = o.fi - FNS;
            if (((tmask >> ti) & 1) && ((fmask >> fi) & 1)) pool.push_back(&o);
        }
        if (pool.empty()) pool.push_back(&ops[r.below(ops.size())]);
        bool ftzdaz = r.chance(1, 4);
        out.head.set("ftzdaz", (int)ftzdaz);
        unsigned nsteps = (unsigned)r.range(4, 24);
        for (unsigned s = 0; s < nsteps; ++s) {
            if (s == 0 || r.chance(1, 4)) {
                Step e; e.op = "setenv"; e.set("rc", (int)r.below(4));
                e.set("ftz", ftzdaz ? (int)r.below(2) : 0); e.set("daz", ftzdaz ? (int)r.below(2) : 0);
                if (r.chance(1, 4)) e.set("xrc", (int)r.below(4));
                out.steps.push_back(e); if (s) continue;
            }
            if (!api.empty() && r.chance(1, 4)) {
                const AOp* ao = api[r.below(api.size())];
                Step c; c.op = "api"; c.set("fn", ao->fn); c.set("type", ao->type); c.setu("ta", r.below(1u << 30)); c.setu("tb", r.below(1u << 30)); out.steps.push_back(c); continue;
            }
            const OpRef& o = *pool[r.below(pool.size())];
            Step c; c.op = "call"; c.set("fn", o.op->fn); c.set("type", o.op->type);
            std::vector<std::uint64_t> a, b;
            for (unsigned l = 0; l < o.op->width; ++l) { a.push_back(gen_lane(r, o.op->elem)); b.push_back(gen_lane(r, o.op->elem)); }
            lanes_to_step(c, "a", a); if (o.op->arity == 2) lanes_to_step(c, "b", b);
            c.set("rot", (int)r.below(2));
            out.steps.push_back(c);
        }
    }

    const OpRef* find_op(const std::string& type, const std::string& fn) {
        for (auto& o : all_ops) if (type == o.op->type && fn == o.op->fn) return &o;
        return nullptr;
    }

    template<class U>
    void check_call(const OpRef& o, const Step& st, int stepno, const Env& env, RunResult& rr, Stats& stats) {
        const unsigned w = o.op->width;
        alignas(64) U a[16] = {}, b[16] = {}, out[16] = {}, a2[16] = {}, b2[16] = {}, out2[16] = {};
        std::vector<std::int64_t> la = st.list("a"), lb = st.list("b");
        for (unsigned i = 0; i < w; ++i) { a[i] = i < la.size() ? (U)la[i] : 0; b[i] = i < lb.size() ? (U)lb[i] : 0; }
        for (unsigned i = 0; i < w; ++i) out[i] = (U)0xDEADBEEFDEADBEEFull;
        apply_env(env);
        const std::uint32_t mx0 = get_mxcsr(); const std::uint16_t cw0 = get_cw();
        asm volatile("" ::: "memory");
        bool returned = guarded([&] { o.op->call(a, b, out); });
        asm volatile("" ::: "memory");
        const std::uint32_t mx1 = get_mxcsr(); const std::uint16_t cw1 = get_cw();
        char envs[48]; std::snprintf(envs, sizeof envs, "rc=%s", RCNAME[env.rc]);
        if (!returned) {
            apply_env(Env()); char d[160]; std::snprintf(d, sizeof d, "%s(%s) raised signal %d (a=%llx b=%llx in lane 0)", o.op->fn, o.op->type, (int)g_opsig, (unsigned long long)a[0], (unsigned long long)b[0]);
            rr.log.linef("%d call %s %s SIGNAL %d", stepno, o.op->fn, o.op->type, (int)g_opsig);
            rr.violate(o.fi->prop, stepno, {o.fi->prop, "signal", o.op->fn, o.op->type, envs}, d); return;
        }
        char envfull[64]; std::snprintf(envfull, sizeof envfull, "rc=%s ftz=%d daz=%d", RCNAME[env.rc], env.ftz, env.daz);
        // reference under the same ambient env (re-applied: the call may have broken it)
        apply_env(env);
        U ref[16];
        for (unsigned i = 0; i < w; ++i) ref[i] = sizeof(U) == 4 ? (U)ref32(o.fi->ref, (std::uint32_t)a[i], (std::uint32_t)b[i]) : (U)ref64(o.fi->ref, (std::uint64_t)a[i], (std::uint64_t)b[i]);
        bool rot = st.num("rot") && w > 1;
        if (rot) {
            for (unsigned i = 0; i < w; ++i) { a2[(i + 1) % w] = a[i]; b2[(i + 1) % w] = b[i]; }
            apply_env(env);
            o.op->call(a2, b2, out2);
        }
        apply_env(Env());
        // log
        std::uint64_t oh = fnv1a(out, sizeof(U) * w);
        rr.log.linef("%d call %s %s %s a=%016llx.. -> %016llx mx=%04x->%04x cw=%04x->%04x", stepno, o.op->fn, o.op->type, envfull,
                     (unsigned long long)a[0], (unsigned long long)oh, mx0 & MX_CTRL, mx1 & MX_CTRL, cw0, cw1);
        // oracle 1: environment preserved (C11)
        if ((mx0 & MX_CTRL) != (mx1 & MX_CTRL) || cw0 != cw1) {
            char d[160]; std::snprintf(d, sizeof d, "MXCSR control %04x -> %04x, x87 CW %04x -> %04x", mx0 & MX_CTRL, mx1 & MX_CTRL, cw0, cw1);
            rr.violate("C11", stepno, {"C11", "env_changed", o.op->fn, o.op->type, envs}, d);
        }
        stats.probes["env_checked_calls"]++;
        if (env.rc) stats.probes["call_under_directed_mode"]++;
        if (env.ftz || env.daz) stats.probes["call_under_ftz_daz"]++;
        // oracle 2: values
        const bool bitexact = !o.fi->rounding;            // C10 bit-exact; C11 numeric
        for (unsigned i = 0; i < w; ++i) {
            U got = out[i], exp = ref[i];
            bool subn = is_sub(a[i]) || is_sub(b[i]) || is_sub(exp) || is_sub(got);
            const char* ca = classify<U>(a[i]); const char* cb = o.op->arity == 2 ? classify<U>(b[i]) : "-";
            {
                std::string tup = std::string(o.op->type) + "|" + o.op->fn + "|" + envfull + "|" + ca + "|" + cb;
                bool special = std::strcmp(ca, "frac") != 0 && std::strcmp(ca, "int") != 0;
                stats.case_seen(tup, env.rc != 0 || special);
            }
            if ((env.ftz || env.daz) && subn) { stats.probes["lane_exempt_ftz_daz_subnormal"]++; continue; }
            if (o.fi->rounding && env.rc && (!std::strcmp(ca, "tie") || !std::strcmp(ca, "half")) && (o.fi->ref == RF_NEARBYINT || o.fi->ref == RF_RINT)) stats.probes["nearbyint_tie_under_directed_mode"]++;
            bool ok;
            if (is_nan(exp)) ok = is_nan(got);
            else if (bitexact) ok = got == exp;
            else {
                ok = got == exp || (is_zero(got) && is_zero(exp));
                if (ok && got != exp) stats.obs["zero_sign_differs_from_libm"]++;
            }
            if (!ok) {
                char d[256]; std::snprintf(d, sizeof d, "lane %u: a=%0*llx(%s) b=%0*llx(%s) got=%0*llx expected=%0*llx under %s", i,
                    (int)sizeof(U) * 2, (unsigned long long)a[i], ca, (int)sizeof(U) * 2, (unsigned long long)b[i], cb,
                    (int)sizeof(U) * 2, (unsigned long long)got, (int)sizeof(U) * 2, (unsigned long long)exp, envfull);
                rr.violate(o.fi->prop, stepno, {o.fi->prop, "value", o.op->fn, o.op->type, envs}, d);
                break;
            }
        }
        // oracle 3: lane independence (rotation equivariance, bit-exact incl. NaN payloads is not
        // required by the statement: NaN <-> NaN accepted)
        if (rot) {
            stats.probes["lane_rotation_checked"]++;
            for (unsigned i = 0; i < w; ++i) {
                U x = out[i], y = out2[(i + 1) % w];
                if (x != y && !(is_nan(x) && is_nan(y))) {
                    char d[200]; std::snprintf(d, sizeof d, "lane %u result %llx differs from %llx when the same operands sit in lane %u", i, (unsigned long long)x, (unsigned long long)y, (i + 1) % w);
                    rr.violate(o.fi->prop, stepno, {o.fi->prop, "lane_dependence", o.op->fn, o.op->type, envs}, d);
                    break;
                }
            }
        }
    }

    // `count` consecutive float32 bit patterns starting at `lo`, packed width lanes per call
    void callrange_step(const Step& st, int stepno, const Env& env, RunResult& rr, Stats& stats) {
        const OpRef* o = find_op(st.str("type"), st.str("fn"));
        if (!o || o->op->elem != 4 || o->op->arity != 1) { rr.log.linef("%d callrange skip", stepno); return; }
        const unsigned w = o->op->width; std::uint64_t lo = st.unum("lo"), count = st.unum("count");
        alignas(64) std::uint32_t a[16], out[16], z[16] = {0};
        char envs[48]; std::snprintf(envs, sizeof envs, "rc=%s", RCNAME[env.rc]);
        std::uint64_t digest = 0; apply_env(env);
        const std::uint32_t mx0 = get_mxcsr();
        for (std::uint64_t p = 0; p < count; p += w) {
            for (unsigned i = 0; i < w; ++i) a[i] = (std::uint32_t)(lo + p + i);
            o->op->call(a, z, out);
            for (unsigned i = 0; i < w && p + i < count; ++i) {
                std::uint32_t exp = ref32(o->fi->ref, a[i], 0), got = out[i];
                bool ok = is_nan(exp) ? is_nan(got) : (got == exp || (is_zero(got) && is_zero(exp)));
                digest = digest * 1099511628211ull + got;
                if (!ok) {
                    apply_env(Env());
                    char d[200]; std::snprintf(d, sizeof d, "lane %u: a=%08x(%s) got=%08x expected=%08x under %s (exhaustive sweep)", i, a[i], classify<std::uint32_t>(a[i]), got, exp, envs);
                    rr.log.linef("%d callrange %s %s %s lo=%llx FAIL at %08x", stepno, o->op->fn, o->op->type, envs, (unsigned long long)lo, a[i]);
                    rr.violate(o->fi->prop, stepno, {o->fi->prop, "value", o->op->fn, o->op->type, envs}, d); return;
                }
            }
        }
        const std::uint32_t mx1 = get_mxcsr(); apply_env(Env());
        if ((mx0 & MX_CTRL) != (mx1 & MX_CTRL)) rr.violate("C11", stepno, {"C11", "env_changed", o->op->fn, o->op->type, envs}, "MXCSR control bits changed during an exhaustive sweep chunk");
        rr.log.linef("%d callrange %s %s %s lo=%llx n=%llu -> %016llx", stepno, o->op->fn, o->op->type, envs, (unsigned long long)lo, (unsigned long long)count, (unsigned long long)digest);
        stats.probes["exhaustive_float32_patterns"] += count;
        stats.case_seen(std::string("exh|") + o->op->type + "|" + o->op->fn + "|" + envs + "|" + std::to_string(lo >> 24), true);
    }

    const AOp* find_api(const std::string& type, const std::string& fn) { for (auto o : api) if (type == o->type && fn == o->fn) return o; return nullptr; }

    // operand bytes for the API slice: floats come from the stratified list (so that NaN, inf, subnormals and
    // integers all occur), integers are tag bytes with some lanes forced to 0 / all-ones / sign bit
    void api_operand(const AOp* o, std::uint64_t tag, unsigned char* out) {
        for (unsigned l = 0; l < o->width; ++l) {
            std::uint64_t h = splitmix_of(tag * 64 + l);
            if (o->is_float) { if (o->elem == 4) { std::uint32_t v = L32[h % L32.size()]; std::memcpy(out + l * 4, &v, 4); } else { std::uint64_t v = L64[h % L64.size()]; std::memcpy(out + l * 8, &v, 8); } }
            else { std::uint64_t v = (h & 7) == 0 ? 0 : (h & 7) == 1 ? ~0ull : (h & 7) == 2 ? (1ull << (o->elem * 8 - 1)) : h >> 3; std::memcpy(out + l * o->elem, &v, o->elem); }
        }
    }
    static std::uint64_t splitmix_of(std::uint64_t x) { return splitmix64(x); }

    void api_step(const Step& st, int stepno, const Env& env, RunResult& rr, Stats& stats) {
        const AOp* o = find_api(st.str("type"), st.str("fn"));
        if (!o) { rr.log.linef("%d api skip (type/fn not in this configuration)", stepno); return; }
        alignas(64) unsigned char a[64] = {0}, b[64] = {0}, out[192], out0[192];
        api_operand(o, st.unum("ta"), a); api_operand(o, st.unum("tb"), b);
        std::memset(out, 0, sizeof out); std::memset(out0, 0, sizeof out0);
        apply_env(env);
        const std::uint32_t mx0 = get_mxcsr(); const std::uint16_t cw0 = get_cw();
        asm volatile("" ::: "memory");
        bool returned = guarded([&] { o->call(a, b, out); });
        asm volatile("" ::: "memory");
        const std::uint32_t mx1 = get_mxcsr(); const std::uint16_t cw1 = get_cw();
        apply_env(Env());
        if (!returned) {
            // a trap inside an operation of the API slice is not a C10/C11 matter (values are not judged here): logged, the run goes on
            rr.log.linef("%d api %s %s SIGNAL %d (observation)", stepno, o->fn, o->type, (int)g_opsig); stats.obs["api_operation_raised_signal"]++;
            if (rr.observations.size() < 4) rr.observations.push_back(std::string(o->fn) + "(" + o->type + ") raised signal " + std::to_string((int)g_opsig));
            return;
        }
        guarded([&] { o->call(a, b, out0); });                 // same call under the default environment
        const std::uint32_t mx2 = get_mxcsr(); const std::uint16_t cw2 = get_cw();
        apply_env(Env());
        char envs[48]; std::snprintf(envs, sizeof envs, "rc=%s", RCNAME[env.rc]);
        rr.log.linef("%d api %s %s rc=%d ftz=%d daz=%d -> %016llx mx=%04x->%04x cw=%04x->%04x", stepno, o->fn, o->type, env.rc, env.ftz, env.daz,
                     (unsigned long long)fnv1a(out, sizeof out), mx0 & MX_CTRL, mx1 & MX_CTRL, cw0, cw1);
        stats.probes["env_checked_api_calls"]++;
        if ((mx0 & MX_CTRL) != (mx1 & MX_CTRL) || cw0 != cw1) {
            char d[200]; std::snprintf(d, sizeof d, "%s(%s): MXCSR control %04x -> %04x, x87 CW %04x -> %04x", o->fn, o->type, mx0 & MX_CTRL, mx1 & MX_CTRL, cw0, cw1);
            rr.violate("C11", stepno, {"C11", "env_changed", std::string("api_") + o->fn, o->type, envs}, d);
        } else if ((mx2 & MX_CTRL) != MX_DEFAULT || cw2 != CW_DEFAULT) {
            char d[200]; std::snprintf(d, sizeof d, "%s(%s) under the default environment: MXCSR control -> %04x, x87 CW -> %04x", o->fn, o->type, mx2 & MX_CTRL, cw2);
            rr.violate("C11", stepno, {"C11", "env_changed", std::string("api_") + o->fn, o->type, "rc=nearest"}, d);
        }
        {
            std::string tup = std::string("api|") + o->type + "|" + o->fn + "|" + std::to_string(env.rc) + "|" + std::to_string(env.ftz * 2 + env.daz);
            stats.case_seen(tup, env.rc != 0 || env.ftz || env.daz);
        }
        // environment-independence (observation only, never a violation of a claimed property)
        if (std::memcmp(out, out0, sizeof out)) {
            if (o->fp_dependent_ok) stats.obs["fp_result_differs_under_non_default_env_as_expected"]++;
            else {
                stats.obs[o->is_float ? "float_result_depends_on_ambient_fp_env" : "INTEGER_result_depends_on_ambient_fp_env"]++;
                if (rr.observations.size() < 4) rr.observations.push_back(std::string(o->fn) + "(" + o->type + ") gives a different result under " + envs + (env.ftz ? " ftz" : "") + (env.daz ? " daz" : "") + " than under the default environment");
            }
        }
    }

    void execute(const Plan& plan, RunResult& rr, Stats& stats) override {
        Env env;
        rr.log.line(plan.head.text());
        int stepno = 0;
        for (auto& st : plan.steps) {
            if (st.op == "setenv") {
                env.rc = (int)(st.num("rc") & 3); env.ftz = st.num("ftz") ? 1 : 0; env.daz = st.num("daz") ? 1 : 0; env.xrc = st.has("xrc") ? (int)(st.num("xrc") & 3) : -1;
                rr.log.linef("%d setenv rc=%d ftz=%d daz=%d xrc=%d", stepno, env.rc, env.ftz, env.daz, env.xrc);
                if (env.xrc >= 0 && env.xrc != env.rc) stats.faults["env_jump_x87_rc_differs_from_mxcsr_rc"]++;
                stats.faults[std::string("env_jump_rc_") + RCNAME[env.rc]]++;
                if (env.ftz) stats.faults["env_jump_ftz"]++;
                if (env.daz) stats.faults["env_jump_daz"]++;
            } else if (st.op == "call") {
                const OpRef* o = find_op(st.str("type"), st.str("fn"));
                if (!o) { rr.log.linef("%d skip (type/fn not in this configuration)", stepno); ++stepno; rr.steps_done = stepno; continue; }
                if (o->op->elem == 4) check_call<std::uint32_t>(*o, st, stepno, env, rr, stats);
                else check_call<std::uint64_t>(*o, st, stepno, env, rr, stats);
            } else if (st.op == "callrange") {
                callrange_step(st, stepno, env, rr, stats);
            } else if (st.op == "api") {
                api_step(st, stepno, env, rr, stats);
            } else { rr.harness_error = "unknown step op " + st.op; return; }
            ++stepno; rr.steps_done = stepno;
            if (rr.v.set) break;
        }
        apply_env(Env());
    }

    std::string extra_json() override {
        std::string s = "{\"types\":" + json_strlist(types) + ",\"ops_in_focus\":" + std::to_string(ops.size()) +
            ",\"exhaustive_float32_ops\":" + std::to_string(exh_ops.size()) + ",\"stratified_f32\":" + std::to_string(L32.size()) + ",\"stratified_f64\":" + std::to_string(L64.size()) + "}";
        return s;
    }
};

} // namespace

int main(int argc, char** argv) { FenvEngine e; return worker_main(e, argc, argv); }

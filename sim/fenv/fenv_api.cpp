// Per-configuration TU: a broad slice of AVEL's PUBLIC API on every vector type the configuration
// provides, used by the environment-preservation oracle of C11 ("no AVEL operation leaves the
// rounding mode or flush-to-zero settings different from what it found") and by the
// environment-independence observation (DESIGN 5.5).  Values are not judged here.
#ifndef API_PART
#define API_PART 0
#endif
#include <avel/Avel.hpp>

#include <cstring>
#include <cstdint>
#include <type_traits>
#include "fenv_iface.hpp"

#define NOINL __attribute__((noinline))
#define CAT2(a, b) a##b
#define CAT(a, b) CAT2(a, b)

namespace {

template<class V> inline V mk(const void* p) { typename V::primitive x; std::memcpy(&x, p, sizeof x); return V{x}; }
template<class V> inline void put(void* o, V v) { typename V::primitive x = avel::decay(v); std::memcpy(o, &x, sizeof x); }
template<class M> inline void putm(void* o, M m) { std::uint32_t c = avel::count(m); std::memcpy(o, &c, 4); }

// integer vectors ------------------------------------------------------------------------------
template<class V> struct I {
    using T = typename V::scalar; using M = typename V::mask;
    static constexpr unsigned bits = sizeof(T) * 8;
    static V nz(const void* b) {   // divisor: never zero, never negative (INT_MIN / -1 would be the caller's UB)
        V d = mk<V>(b); d = d & V{(T)(std::is_signed<T>::value ? (T)((typename std::make_unsigned<T>::type)~0u >> 1) : (T)~(T)0)}; return d | V{(T)1};
    }
    static long long sh(const void* b) { unsigned char c; std::memcpy(&c, b, 1); return c % bits; }
    static V shv(const void* b) { return mk<V>(b) & V{(T)(bits - 1)}; }
    static NOINL void add(const void* a, const void* b, void* o) { put<V>(o, mk<V>(a) + mk<V>(b)); }
    static NOINL void sub(const void* a, const void* b, void* o) { put<V>(o, mk<V>(a) - mk<V>(b)); }
    static NOINL void mul(const void* a, const void* b, void* o) { put<V>(o, mk<V>(a) * mk<V>(b)); }
    static NOINL void divi(const void* a, const void* b, void* o) { put<V>(o, mk<V>(a) / nz(b)); }
    static NOINL void rem(const void* a, const void* b, void* o) { put<V>(o, mk<V>(a) % nz(b)); }
    static NOINL void divfn(const void* a, const void* b, void* o) { auto r = avel::div(mk<V>(a), nz(b)); put<V>(o, r.quot); put<V>((char*)o + 64, r.rem); }
    static NOINL void denom(const void* a, const void* b, void* o) { avel::Denominator<V> d{nz(b)}; put<V>(o, mk<V>(a) / d); put<V>((char*)o + 64, mk<V>(a) % d); }
    static NOINL void band(const void* a, const void* b, void* o) { put<V>(o, mk<V>(a) & mk<V>(b)); }
    static NOINL void bor(const void* a, const void* b, void* o) { put<V>(o, mk<V>(a) | mk<V>(b)); }
    static NOINL void bxor(const void* a, const void* b, void* o) { put<V>(o, mk<V>(a) ^ mk<V>(b)); }
    static NOINL void bnot(const void* a, const void*, void* o) { put<V>(o, ~mk<V>(a)); }
    static NOINL void shl(const void* a, const void* b, void* o) { put<V>(o, mk<V>(a) << sh(b)); }
    static NOINL void shr(const void* a, const void* b, void* o) { put<V>(o, mk<V>(a) >> sh(b)); }
    static NOINL void shlv(const void* a, const void* b, void* o) { put<V>(o, mk<V>(a) << shv(b)); }
    static NOINL void shrv(const void* a, const void* b, void* o) { put<V>(o, mk<V>(a) >> shv(b)); }
    static NOINL void rotl(const void* a, const void* b, void* o) { put<V>(o, avel::rotl(mk<V>(a), sh(b))); }
    static NOINL void rotr(const void* a, const void* b, void* o) { put<V>(o, avel::rotr(mk<V>(a), sh(b))); }
    static NOINL void rotlv(const void* a, const void* b, void* o) { put<V>(o, avel::rotl(mk<V>(a), shv(b))); }
    static NOINL void rotrv(const void* a, const void* b, void* o) { put<V>(o, avel::rotr(mk<V>(a), shv(b))); }
    static NOINL void neg(const void* a, const void*, void* o) { auto r = -mk<V>(a); put<decltype(r)>(o, r); }
    static NOINL void inc(const void* a, const void*, void* o) { V t = mk<V>(a); ++t; t++; put<V>(o, t); }
    static NOINL void dec(const void* a, const void*, void* o) { V t = mk<V>(a); --t; t--; put<V>(o, t); }
    static NOINL void cmp(const void* a, const void* b, void* o) {
        V x = mk<V>(a), y = mk<V>(b); std::uint32_t c[6] = {avel::count(x == y), avel::count(x != y), avel::count(x < y), avel::count(x <= y), avel::count(x > y), avel::count(x >= y)};
        std::memcpy(o, c, sizeof c);
    }
    static NOINL void minmax(const void* a, const void* b, void* o) { put<V>(o, avel::min(mk<V>(a), mk<V>(b))); put<V>((char*)o + 64, avel::max(mk<V>(a), mk<V>(b))); }
    static NOINL void clamp(const void* a, const void* b, void* o) { V lo = avel::min(mk<V>(a), mk<V>(b)), hi = avel::max(mk<V>(a), mk<V>(b)); put<V>(o, avel::clamp(mk<V>(a) ^ mk<V>(b), lo, hi)); }
    static NOINL void average(const void* a, const void* b, void* o) { put<V>(o, avel::average(mk<V>(a), mk<V>(b))); }
    static NOINL void midpoint(const void* a, const void* b, void* o) { put<V>(o, avel::midpoint(mk<V>(a), mk<V>(b))); }
    static NOINL void blend(const void* a, const void* b, void* o) { M m = mk<V>(a) < mk<V>(b); put<V>(o, avel::blend(m, mk<V>(a), mk<V>(b))); put<V>((char*)o + 64, avel::keep(m, mk<V>(a)) | avel::clear(m, mk<V>(b))); }
    static NOINL void byteswap(const void* a, const void*, void* o) { put<V>(o, avel::byteswap(mk<V>(a))); }
    static NOINL void popcount(const void* a, const void*, void* o) { put<V>(o, avel::popcount(mk<V>(a))); }
    static NOINL void clz(const void* a, const void*, void* o) { put<V>(o, avel::countl_zero(mk<V>(a))); put<V>((char*)o + 64, avel::countl_one(mk<V>(a))); }
    static NOINL void ctz(const void* a, const void*, void* o) { put<V>(o, avel::countr_zero(mk<V>(a))); put<V>((char*)o + 64, avel::countr_one(mk<V>(a))); }
    static NOINL void maskops(const void* a, const void* b, void* o) {
        M m = mk<V>(a) < mk<V>(b), n = mk<V>(a) == mk<V>(b); std::uint32_t c[6] = {avel::count(m & n), avel::count(m | n), avel::count(m ^ n), avel::count(!m), (std::uint32_t)avel::any(m), (std::uint32_t)(avel::all(n) + 2 * avel::none(n))};
        std::memcpy(o, c, sizeof c); put<V>((char*)o + 64, V{m});
    }
    static NOINL void bcast(const void* a, const void*, void* o) { T x; std::memcpy(&x, a, sizeof x); put<V>(o, V{x}); auto arr = avel::to_array(mk<V>(a)); std::memcpy((char*)o + 64, arr.data(), sizeof(T) * V::width); }
};
template<class V> struct IU {   // unsigned only
    static NOINL void bitfns(const void* a, const void*, void* o) { put<V>(o, avel::bit_width(mk<V>(a))); put<V>((char*)o + 64, avel::bit_floor(mk<V>(a))); put<V>((char*)o + 128, avel::bit_ceil(mk<V>(a))); }
};
template<class V> struct IS {   // signed only
    static NOINL void absfns(const void* a, const void* b, void* o) { put<V>(o, avel::abs(mk<V>(a))); put<V>((char*)o + 64, avel::neg_abs(mk<V>(a))); put<V>((char*)o + 128, avel::negate(mk<V>(a) < mk<V>(b), mk<V>(a))); }
};

// float vectors ----------------------------------------------------------------------------------
template<class V> struct F {
    using T = typename V::scalar; using M = typename V::mask;
    using IV = avel::Vector<typename avel::to_index_type<T>::type, V::width>;
    static NOINL void cmp(const void* a, const void* b, void* o) {
        V x = mk<V>(a), y = mk<V>(b); std::uint32_t c[6] = {avel::count(x == y), avel::count(x != y), avel::count(x < y), avel::count(x <= y), avel::count(x > y), avel::count(x >= y)};
        std::memcpy(o, c, sizeof c);
    }
    static NOINL void qcmp(const void* a, const void* b, void* o) {
        V x = mk<V>(a), y = mk<V>(b); std::uint32_t c[6] = {avel::count(avel::isgreater(x, y)), avel::count(avel::isgreaterequal(x, y)), avel::count(avel::isless(x, y)), avel::count(avel::islessequal(x, y)), avel::count(avel::islessgreater(x, y)), avel::count(avel::isunordered(x, y))};
        std::memcpy(o, c, sizeof c);
    }
    static NOINL void classify(const void* a, const void*, void* o) {
        V x = mk<V>(a); std::uint32_t c[6] = {avel::count(avel::isnan(x)), avel::count(avel::isinf(x)), avel::count(avel::isfinite(x)), avel::count(avel::isnormal(x)), avel::count(avel::signbit(x)), 0};
        std::memcpy(o, c, sizeof c); put<IV>((char*)o + 64, avel::fpclassify(x));
    }
    static NOINL void minmax(const void* a, const void* b, void* o) { put<V>(o, avel::min(mk<V>(a), mk<V>(b))); put<V>((char*)o + 64, avel::max(mk<V>(a), mk<V>(b))); }
    static NOINL void fminmax(const void* a, const void* b, void* o) { put<V>(o, avel::fmin(mk<V>(a), mk<V>(b))); put<V>((char*)o + 64, avel::fmax(mk<V>(a), mk<V>(b))); }
    static NOINL void fdim(const void* a, const void* b, void* o) { put<V>(o, avel::fdim(mk<V>(a), mk<V>(b))); }
    static NOINL void absfns(const void* a, const void* b, void* o) { put<V>(o, avel::abs(mk<V>(a))); put<V>((char*)o + 64, avel::neg_abs(mk<V>(a))); put<V>((char*)o + 128, avel::copysign(mk<V>(a), mk<V>(b))); }
    static NOINL void blend(const void* a, const void* b, void* o) { M m = mk<V>(a) < mk<V>(b); put<V>(o, avel::blend(m, mk<V>(a), mk<V>(b))); put<V>((char*)o + 64, avel::negate(m, mk<V>(a))); }
    static NOINL void frac(const void* a, const void*, void* o) { put<V>(o, avel::frac(mk<V>(a))); }
    static NOINL void frexp(const void* a, const void*, void* o) { IV e{}; put<V>(o, avel::frexp(mk<V>(a), &e)); put<IV>((char*)o + 64, e); }
    static NOINL void ldexp(const void* a, const void* b, void* o) { IV e = mk<IV>(b) & IV{(typename IV::scalar)0x3f}; put<V>(o, avel::ldexp(mk<V>(a), e)); put<V>((char*)o + 64, avel::scalbn(mk<V>(a), e)); }
    static NOINL void logb(const void* a, const void*, void* o) { put<V>(o, avel::logb(mk<V>(a))); put<IV>((char*)o + 64, avel::ilogb(mk<V>(a))); }
    static NOINL void bcast(const void* a, const void*, void* o) { T x; std::memcpy(&x, a, sizeof x); put<V>(o, V{x}); auto arr = avel::to_array(mk<V>(a)); std::memcpy((char*)o + 64, arr.data(), sizeof(T) * V::width); }
};

#define IOP(V, NAME, FN, FLAG) {NAME, #FN, V::width, (unsigned)sizeof(typename V::scalar), false, FLAG, &I<V>::FN},
#define ICOMMON(V, NAME) IOP(V, NAME, add, false) IOP(V, NAME, sub, false) IOP(V, NAME, mul, false) IOP(V, NAME, divi, false) IOP(V, NAME, rem, false) IOP(V, NAME, divfn, false) IOP(V, NAME, denom, false) \
    IOP(V, NAME, band, false) IOP(V, NAME, bor, false) IOP(V, NAME, bxor, false) IOP(V, NAME, bnot, false) IOP(V, NAME, shl, false) IOP(V, NAME, shr, false) IOP(V, NAME, shlv, false) IOP(V, NAME, shrv, false) \
    IOP(V, NAME, rotl, false) IOP(V, NAME, rotr, false) IOP(V, NAME, rotlv, false) IOP(V, NAME, rotrv, false) IOP(V, NAME, neg, false) IOP(V, NAME, inc, false) IOP(V, NAME, dec, false) IOP(V, NAME, cmp, false) \
    IOP(V, NAME, minmax, false) IOP(V, NAME, clamp, false) IOP(V, NAME, average, false) IOP(V, NAME, midpoint, false) IOP(V, NAME, blend, false) IOP(V, NAME, byteswap, false) IOP(V, NAME, popcount, false) \
    IOP(V, NAME, clz, false) IOP(V, NAME, ctz, false) IOP(V, NAME, maskops, false) IOP(V, NAME, bcast, false)
#define UENT(V, NAME) ICOMMON(V, NAME) {NAME, "bitfns", V::width, (unsigned)sizeof(typename V::scalar), false, false, &IU<V>::bitfns},
#define SENT(V, NAME) ICOMMON(V, NAME) {NAME, "absfns", V::width, (unsigned)sizeof(typename V::scalar), false, false, &IS<V>::absfns},
#define FOPX(V, NAME, FN, FLAG) {NAME, #FN, V::width, (unsigned)sizeof(typename V::scalar), true, FLAG, &F<V>::FN},
#define FENT(V, NAME) FOPX(V, NAME, cmp, false) FOPX(V, NAME, qcmp, false) FOPX(V, NAME, classify, false) FOPX(V, NAME, minmax, false) FOPX(V, NAME, fminmax, false) FOPX(V, NAME, fdim, true) \
    FOPX(V, NAME, absfns, false) FOPX(V, NAME, blend, false) FOPX(V, NAME, frac, true) FOPX(V, NAME, frexp, false) FOPX(V, NAME, ldexp, true) FOPX(V, NAME, logb, false) FOPX(V, NAME, bcast, false)

#if defined(AVEL_SSE2)
#define W128(X) X
#else
#define W128(X)
#endif
#if defined(AVEL_AVX2)
#define W256(X) X
#else
#define W256(X)
#endif
#if defined(AVEL_AVX512F)
#define W512(X) X
#else
#define W512(X)
#endif
#if defined(AVEL_AVX512BW)
#define W512BW(X) X
#else
#define W512BW(X)
#endif

const AOp table[] = {
#if API_PART == 0
    UENT(avel::vec1x8u, "vec1x8u") W128(UENT(avel::vec16x8u, "vec16x8u")) W256(UENT(avel::vec32x8u, "vec32x8u")) W512BW(UENT(avel::vec64x8u, "vec64x8u"))
#elif API_PART == 1
    SENT(avel::vec1x8i, "vec1x8i") W128(SENT(avel::vec16x8i, "vec16x8i")) W256(SENT(avel::vec32x8i, "vec32x8i")) W512BW(SENT(avel::vec64x8i, "vec64x8i"))
#elif API_PART == 2
    UENT(avel::vec1x16u, "vec1x16u") W128(UENT(avel::vec8x16u, "vec8x16u")) W256(UENT(avel::vec16x16u, "vec16x16u")) W512BW(UENT(avel::vec32x16u, "vec32x16u"))
#elif API_PART == 3
    SENT(avel::vec1x16i, "vec1x16i") W128(SENT(avel::vec8x16i, "vec8x16i")) W256(SENT(avel::vec16x16i, "vec16x16i")) W512BW(SENT(avel::vec32x16i, "vec32x16i"))
#elif API_PART == 4
    UENT(avel::vec1x32u, "vec1x32u") W128(UENT(avel::vec4x32u, "vec4x32u")) W256(UENT(avel::vec8x32u, "vec8x32u")) W512(UENT(avel::vec16x32u, "vec16x32u"))
#elif API_PART == 5
    SENT(avel::vec1x32i, "vec1x32i") W128(SENT(avel::vec4x32i, "vec4x32i")) W256(SENT(avel::vec8x32i, "vec8x32i")) W512(SENT(avel::vec16x32i, "vec16x32i"))
#elif API_PART == 6
    UENT(avel::vec1x64u, "vec1x64u") W128(UENT(avel::vec2x64u, "vec2x64u")) W256(UENT(avel::vec4x64u, "vec4x64u")) W512(UENT(avel::vec8x64u, "vec8x64u"))
#elif API_PART == 7
    SENT(avel::vec1x64i, "vec1x64i") W128(SENT(avel::vec2x64i, "vec2x64i")) W256(SENT(avel::vec4x64i, "vec4x64i")) W512(SENT(avel::vec8x64i, "vec8x64i"))
#elif API_PART == 8
    FENT(avel::vec1x32f, "vec1x32f") W128(FENT(avel::vec4x32f, "vec4x32f")) W256(FENT(avel::vec8x32f, "vec8x32f")) W512(FENT(avel::vec16x32f, "vec16x32f"))
#else
    FENT(avel::vec1x64f, "vec1x64f") W128(FENT(avel::vec2x64f, "vec2x64f")) W256(FENT(avel::vec4x64f, "vec4x64f")) W512(FENT(avel::vec8x64f, "vec8x64f"))
#endif
};
} // namespace
extern "C" const AOp* CAT(fenv_api_part, API_PART)(std::size_t* n) { *n = sizeof table / sizeof table[0]; return table; }

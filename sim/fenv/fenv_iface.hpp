#ifndef VERIF_FENV_IFACE_HPP
#define VERIF_FENV_IFACE_HPP
#include <cstddef>
#include <cstdint>
// One registry entry = one real AVEL operation on one type.
struct FOp {
    const char* type;   // "vec4x32f", "scalar64f", ...
    const char* fn;     // "add", "nearbyint", ...
    unsigned width;     // lanes
    unsigned elem;      // 4 or 8
    unsigned arity;     // 1 or 2
    void (*call)(const void* a, const void* b, void* out);
};
const FOp* fenv_registry(std::size_t* n);

// Broad public-API slice (fenv_api.cpp): environment preservation / independence only, values not judged.
struct AOp {
    const char* type; const char* fn; unsigned width, elem; bool is_float;
    bool fp_dependent_ok;        // result may legitimately depend on the ambient rounding mode / FTZ / DAZ
    void (*call)(const void* a, const void* b, void* out192);
};
extern "C" {
const AOp* fenv_api_part0(std::size_t*); const AOp* fenv_api_part1(std::size_t*); const AOp* fenv_api_part2(std::size_t*); const AOp* fenv_api_part3(std::size_t*);
const AOp* fenv_api_part4(std::size_t*); const AOp* fenv_api_part5(std::size_t*); const AOp* fenv_api_part6(std::size_t*); const AOp* fenv_api_part7(std::size_t*);
const AOp* fenv_api_part8(std::size_t*); const AOp* fenv_api_part9(std::size_t*);
}

// Reference (fenv_ref.cpp): scalar hardware op / glibc libm under the AMBIENT mode.
enum RefFn { RF_ADD, RF_SUB, RF_MUL, RF_DIV, RF_INC, RF_DEC, RF_NEG, RF_ID, RF_SQRT,
             RF_CEIL, RF_FLOOR, RF_TRUNC, RF_ROUND, RF_NEARBYINT, RF_RINT };
extern "C" std::uint32_t ref32(int fn, std::uint32_t a, std::uint32_t b);
extern "C" std::uint64_t ref64(int fn, std::uint64_t a, std::uint64_t b);
// integer-arithmetic model of the six rounding functions; rc = 0 nearest,1 down,2 up,3 zero
extern "C" std::uint32_t imodel32(int fn, std::uint32_t a, int rc);
extern "C" std::uint64_t imodel64(int fn, std::uint64_t a, int rc);
#endif

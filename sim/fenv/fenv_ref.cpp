// Reference TU.  Built WITHOUT any -m flag and with -fno-builtin -frounding-math
// -ffp-contract=off, so every operation is the scalar SSE2 instruction / the glibc call,
// executed under whatever MXCSR the caller has set.
#include <cmath>
#include <cstring>
#include "fenv_iface.hpp"

template<class F, class U> static inline F fb(U u) { F f; std::memcpy(&f, &u, sizeof f); return f; }
template<class F, class U> static inline U bf(F f) { U u; std::memcpy(&u, &f, sizeof u); return u; }

extern "C" std::uint32_t ref32(int fn, std::uint32_t a, std::uint32_t b) {
    volatile float x = fb<float>(a), y = fb<float>(b); volatile float r = 0;
    switch (fn) {
        case RF_ADD: r = x + y; break;  case RF_SUB: r = x - y; break;
        case RF_MUL: r = x * y; break;  case RF_DIV: r = x / y; break;
        case RF_INC: r = x + 1.0f; break; case RF_DEC: r = x - 1.0f; break;
        case RF_NEG: return a ^ 0x80000000u;
        case RF_ID: return a;
        case RF_SQRT: r = sqrtf(x); break;
        case RF_CEIL: r = ceilf(x); break;   case RF_FLOOR: r = floorf(x); break;
        case RF_TRUNC: r = truncf(x); break; case RF_ROUND: r = roundf(x); break;
        case RF_NEARBYINT: r = nearbyintf(x); break; case RF_RINT: r = rintf(x); break;
    }
    float rr = r; return bf<float, std::uint32_t>(rr);
}
extern "C" std::uint64_t ref64(int fn, std::uint64_t a, std::uint64_t b) {
    volatile double x = fb<double>(a), y = fb<double>(b); volatile double r = 0;
    switch (fn) {
        case RF_ADD: r = x + y; break;  case RF_SUB: r = x - y; break;
        case RF_MUL: r = x * y; break;  case RF_DIV: r = x / y; break;
        case RF_INC: r = x + 1.0; break; case RF_DEC: r = x - 1.0; break;
        case RF_NEG: return a ^ 0x8000000000000000ull;
        case RF_ID: return a;
        case RF_SQRT: r = sqrt(x); break;
        case RF_CEIL: r = ceil(x); break;   case RF_FLOOR: r = floor(x); break;
        case RF_TRUNC: r = trunc(x); break; case RF_ROUND: r = round(x); break;
        case RF_NEARBYINT: r = nearbyint(x); break; case RF_RINT: r = rint(x); break;
    }
    double rr = r; return bf<double, std::uint64_t>(rr);
}

// Integer model: U = bits type, MB = mantissa bits, EB = exponent bits
template<class U, int MB, int EB>
static U imodel(int fn, U bits, int rc) {
    const int bias = (1 << (EB - 1)) - 1;
    const U one = 1, emask = (one << EB) - 1, mmask = (one << MB) - 1;
    const U sign = bits >> (MB + EB);
    const int e = (int)((bits >> MB) & emask);
    const U m = bits & mmask;
    // kind: 0 trunc, 1 floor, 2 ceil, 3 half-away, 4 half-even
    int kind;
    switch (fn) {
        case RF_TRUNC: kind = 0; break; case RF_FLOOR: kind = 1; break; case RF_CEIL: kind = 2; break;
        case RF_ROUND: kind = 3; break;
        default: kind = (rc == 0) ? 4 : (rc == 1) ? 1 : (rc == 2) ? 2 : 0; break;
    }
    if (e == (int)emask) return bits;                 // inf / NaN
    if (e >= bias + MB) return bits;                  // already integral
    const U sbit = sign << (MB + EB);
    const U onebits = (U)bias << MB;
    if (e < bias) {                                   // |x| < 1
        if (e == 0 && m == 0) return bits;
        bool up;
        bool ge_half = (e == bias - 1);
        bool gt_half = ge_half && m != 0;
        switch (kind) {
            case 0: up = false; break; case 1: up = sign != 0; break; case 2: up = sign == 0; break;
            case 3: up = ge_half; break; default: up = gt_half; break;
        }
        return sbit | (up ? onebits : 0);
    }
    const int shift = MB - (e - bias);                // 1..MB
    const U fmask = (one << shift) - 1, frac = bits & fmask;
    if (frac == 0) return bits;
    const U base = bits & ~fmask, upv = base + (one << shift), half = one << (shift - 1);
    const U lsb = (shift == MB) ? 1 : ((base >> shift) & 1);
    bool up;
    switch (kind) {
        case 0: up = false; break; case 1: up = sign != 0; break; case 2: up = sign == 0; break;
        case 3: up = frac >= half; break;
        default: up = frac > half || (frac == half && lsb); break;
    }
    return up ? upv : base;
}
extern "C" std::uint32_t imodel32(int fn, std::uint32_t a, int rc) { return imodel<std::uint32_t, 23, 8>(fn, a, rc); }
extern "C" std::uint64_t imodel64(int fn, std::uint64_t a, int rc) { return imodel<std::uint64_t, 52, 11>(fn, a, rc); }

#ifndef VERIF_HEAP_IFACE_HPP
#define VERIF_HEAP_IFACE_HPP
#include <cstddef>
// One entry per instantiation avel::Aligned_allocator<P<S, TA>, A> (sizeof S, alignof TA; TA == S for the first family).
struct HOps {
    unsigned S, A, TA;
    void* (*allocate)(std::size_t n);
    void* (*allocate_hint)(std::size_t n, const void* hint);
    void* (*allocate_rebound)(std::size_t n);      // through rebind<P<S>>::other of an allocator for another T
    void (*deallocate)(void* p, std::size_t n);
    bool (*misc)();                                // ==, !=, copy, move, select_on_container_copy_construction, max_size
    // std::vector<P<S>, Aligned_allocator<P<S>,A>>
    void* (*vnew)(); void (*vdel)(void*);
    void (*vpush)(void*, const unsigned char* elem);
    void (*vresize)(void*, std::size_t n, const unsigned char* elem);
    void (*vreserve)(void*, std::size_t n);
    void (*vshrink)(void*); void* (*vcopy)(void*); void* (*vmove)(void*);
    void (*vswap)(void*, void*); void (*vassign)(void* dst, void* src); void (*vclear)(void*);
    std::size_t (*vsize)(void*); std::size_t (*vcap)(void*); const void* (*vdata)(void*);
    // std::list<P<S>, Aligned_allocator<P<S>,A>> (null when A < alignof(list node))
    void* (*lnew)(); void (*ldel)(void*);
    void (*lpush_back)(void*, const unsigned char*); void (*lpush_front)(void*, const unsigned char*);
    void (*lpop_back)(void*); void (*lpop_front)(void*);
    std::size_t (*lsize)(void*); void (*lget)(void*, std::size_t i, unsigned char* out);
};
extern "C" {
const HOps* heap_registry_part0(std::size_t* n); const HOps* heap_registry_part1(std::size_t* n); const HOps* heap_registry_part2(std::size_t* n);
const HOps* heap_registry_part3(std::size_t* n); const HOps* heap_registry_part4(std::size_t* n); const HOps* heap_registry_part5(std::size_t* n);
const HOps* heap_registry_part6(std::size_t* n); const HOps* heap_registry_part7(std::size_t* n);
}
const char* heap_impl_name();   // "sse" | "cxx17" | "cxx11"
#endif

// SimHeap: the C heap under avel::Aligned_allocator is the simulated, fault-injected component.
// malloc/free/posix_memalign/aligned_alloc/calloc/realloc are diverted (-Wl,--wrap) to a heap
// that does every LEGAL thing glibc rarely does (address residues, tail flush against a guard
// page, garbage fill, immediate reuse, malloc(0) null/unique, ENOMEM), while caller tasks are
// interleaved by a seeded baton scheduler with yield points inside the heap calls.
#include "../core/core.hpp"
#include "heap_iface.hpp"

#include <csetjmp>
#include <csignal>
#include <cerrno>
#include <thread>
#include <mutex>
#include <condition_variable>
#include <memory>
#include <sys/mman.h>
#include <ucontext.h>

using namespace sim;

extern "C" {
void* __real_malloc(std::size_t); void __real_free(void*); void* __real_calloc(std::size_t, std::size_t);
void* __real_realloc(void*, std::size_t); int __real_posix_memalign(void**, std::size_t, std::size_t);
void* __real_aligned_alloc(std::size_t, std::size_t);
void __asan_poison_memory_region(void const volatile*, std::size_t) __attribute__((weak));
void __asan_unpoison_memory_region(void const volatile*, std::size_t) __attribute__((weak));
void __ubsan_get_current_report_data(const char**, const char**, const char**, unsigned*, unsigned*, char**) __attribute__((weak));
}

namespace {

const std::uintptr_t ARENA_BASE = 0x510000000000ull;
const std::size_t ARENA_SIZE = 1ull << 32;   // 4 GiB virtual, PROT_NONE, NORESERVE
const std::size_t PG = 4096;

struct Block {
    std::uintptr_t base = 0; std::size_t size = 0;       // what the heap handed out
    std::uintptr_t span = 0; std::size_t span_len = 0;   // RW data pages (guard page before and after)
    bool live = false, quarantined = false;
    int op_serial = -1;                                  // which AVEL operation requested it
    const char* call = "";
    std::size_t align_req = 16;
    unsigned char fill = 0;
};

struct FreeRec { std::uintptr_t p; int block; };          // block == -1: not a live block base

struct OpCtx {                                            // one AVEL operation in flight
    int serial = 0, task = 0; const Step* step = nullptr;
    int heapcalls = 0;
    std::vector<int> allocs; std::vector<FreeRec> frees;
    std::vector<std::string> heap_errors;                 // invalid free, double free ...
    bool injected_fail = false;
    bool preempted_inside = false;
    std::vector<std::string> san_reports;
};

thread_local OpCtx* tl_ctx = nullptr;
thread_local sigjmp_buf* tl_jmp = nullptr;
thread_local volatile std::uintptr_t tl_fault_addr = 0;
thread_local volatile int tl_fault_write = 0;
thread_local volatile int tl_fault_sig = 0;
thread_local volatile std::uintptr_t tl_fault_rip = 0;
extern "C" char __executable_start;
thread_local int tl_task = -1;

inline unsigned char pat_byte(unsigned pat, std::size_t i) {
    if (pat == 0) return 0; if (pat == 255) return 0xFF;
    return (unsigned char)((pat * 131u + i * 7u + (i >> 8) * 13u) | 1u);
}
inline unsigned char canary_byte(std::uintptr_t a) { return (unsigned char)(0xC5 ^ (a * 37u)); }

struct PoolBlock { void* p; std::size_t n; const HOps* ops; unsigned pat; bool written; int by_task; int block; };
struct Container { char kind; const HOps* ops; void* h; std::vector<std::vector<unsigned char>> model; bool busy = false; };
typedef std::shared_ptr<Container> ContP;

struct HeapEngine;
HeapEngine* g_eng = nullptr;

struct HeapEngine : Engine {
    std::string prop, tier, impl;
    std::vector<HOps> regv; const HOps* reg = nullptr; std::size_t nreg = 0;
    // ---- arena state (per run)
    std::size_t bump = 0;
    std::vector<Block> blocks;
    std::vector<int> free_spans;        // quarantined block ids available for reuse
    // ---- run state
    std::vector<PoolBlock> pool; std::vector<ContP> conts;
    RunResult* rr = nullptr; Stats* st = nullptr; const Plan* plan = nullptr;
    int op_serial = 0; bool aborted = false; bool faultmode = false;
    // ---- scheduler
    std::mutex mu; std::condition_variable cv; int turn = -1; int ntasks = 1;
    std::vector<std::int64_t> sched; std::size_t sched_pos = 0; std::uint64_t yields = 0, switches = 0;
    std::vector<char> task_done; std::vector<sigjmp_buf*> task_top;
    std::uint64_t sched_hash = 0; std::unordered_set<std::uint64_t> scheds_seen;

    const char* name() const override { return "heap"; }

    //------------------------------------------------------------ arena
    std::string init(const std::string& p, const std::string& t) override {
        prop = p; tier = t; g_eng = this;
        { typedef const HOps* (*PF)(std::size_t*); PF parts[] = {heap_registry_part0, heap_registry_part1, heap_registry_part2, heap_registry_part3, heap_registry_part4, heap_registry_part5, heap_registry_part6, heap_registry_part7};
          for (PF f : parts) { std::size_t k; const HOps* t = f(&k); regv.insert(regv.end(), t, t + k); } }
        reg = regv.data(); nreg = regv.size(); impl = heap_impl_name();
        void* a = mmap((void*)ARENA_BASE, ARENA_SIZE, PROT_NONE, MAP_PRIVATE | MAP_ANONYMOUS | MAP_NORESERVE | MAP_FIXED_NOREPLACE, -1, 0);
        if (a != (void*)ARENA_BASE) return "cannot map SimHeap arena at fixed base";
        struct sigaction sa; std::memset(&sa, 0, sizeof sa); sa.sa_sigaction = &HeapEngine::on_fault; sa.sa_flags = SA_SIGINFO | SA_NODEFER;
        sigaction(SIGSEGV, &sa, nullptr); sigaction(SIGBUS, &sa, nullptr); sigaction(SIGILL, &sa, nullptr);
        build_sweep();
        return "";
    }
    bool in_arena(std::uintptr_t a) const { return a >= ARENA_BASE && a < ARENA_BASE + ARENA_SIZE; }

    void arena_reset() {
        if (bump) {
            if (__asan_unpoison_memory_region) __asan_unpoison_memory_region((void*)ARENA_BASE, bump);
            mprotect((void*)ARENA_BASE, bump, PROT_NONE); madvise((void*)ARENA_BASE, bump, MADV_DONTNEED);
        }
        bump = 0; blocks.clear(); free_spans.clear();
    }

    static void on_fault(int sig, siginfo_t* si, void* uc) {
        std::uintptr_t a = (std::uintptr_t)si->si_addr;
        if (tl_jmp) {
            tl_fault_addr = a; tl_fault_sig = sig; tl_fault_rip = (std::uintptr_t)((ucontext_t*)uc)->uc_mcontext.gregs[REG_RIP];
            tl_fault_write = (int)((((ucontext_t*)uc)->uc_mcontext.gregs[REG_ERR] >> 1) & 1);
            siglongjmp(*tl_jmp, 1);
        }
        // not inside an AVEL operation: harness bug -> die loudly (driver reports exit 2)
        const char m[] = "SimHeap: fault outside an AVEL operation\n"; (void)!write(2, m, sizeof m - 1);
        signal(sig, SIG_DFL); raise(sig);
    }

    //------------------------------------------------------------ scheduler (baton)
    // A yield point: hand the baton to the task the plan's schedule names next.  Only one task
    // ever runs; who runs next is decided by the plan, never by the OS.
    void yield_point(const char* where) {
        if (ntasks <= 1 || tl_task < 0) return;
        ++yields;
        int next = pick_next();
        if (tl_ctx && next != tl_task) tl_ctx->preempted_inside = true;
        sched_hash = fnv1a(where, std::strlen(where), sched_hash) * 31 + (std::uint64_t)next;
        if (next == tl_task) return;
        ++switches;
        std::unique_lock<std::mutex> lk(mu);
        int me = tl_task; turn = next; cv.notify_all();
        cv.wait(lk, [&] { return turn == me; });
        lk.unlock();
        if (aborted && task_top[me]) siglongjmp(*task_top[me], 2);
    }
    int pick_next() {
        std::vector<int> run; for (int i = 0; i < ntasks; ++i) if (!task_done[i]) run.push_back(i);
        if (run.empty()) return tl_task;
        std::int64_t c = sched.empty() ? 0 : sched[sched_pos++ % sched.size()];
        return run[(std::size_t)(c < 0 ? -c : c) % run.size()];
    }

    //------------------------------------------------------------ the simulated heap
    std::int64_t choice(const char* key, std::int64_t def) {
        if (!tl_ctx || !tl_ctx->step) return def;
        std::vector<std::int64_t> l = tl_ctx->step->list(key);
        if (l.empty()) return def;
        return l[(std::size_t)(tl_ctx->heapcalls) % l.size()];
    }
    std::string choice_s(const char* key, const char* def) {
        if (!tl_ctx || !tl_ctx->step) return def;
        std::string v = tl_ctx->step->str(key, def); if (v.empty()) return def;
        std::vector<std::string> parts; std::size_t b = 0;
        for (;;) { auto e = v.find(',', b); parts.push_back(v.substr(b, e == std::string::npos ? e : e - b)); if (e == std::string::npos) break; b = e + 1; }
        return parts[(std::size_t)(tl_ctx->heapcalls) % parts.size()];
    }

    void* sim_alloc(std::size_t size, std::size_t al, const char* call) {
        OpCtx* c = tl_ctx;
        bool yflag = c->step && (c->step->num("y") & 2);
        if (yflag) yield_point("heap_enter");
        void* result = nullptr;
        if (faultmode && choice("fail", 0)) {
            c->injected_fail = true; st->faults["injected_enomem"]++; errno = ENOMEM;
            rr->log.linef("  heap %s(%zu,al=%zu) -> ENOMEM (injected)", call, size, al);
        } else if (size == 0 && choice_s("z", "uniq") == "null") {
            st->faults["malloc0_returns_null"]++;
            rr->log.linef("  heap %s(0) -> NULL (legal)", call);
        } else {
            result = place(size, al, call);
        }
        c->heapcalls++;
        if (yflag) yield_point("heap_exit");
        return result;
    }

    void* place(std::size_t size, std::size_t al, const char* call) {
        OpCtx* c = tl_ctx;
        std::size_t eff = size ? size : 1;
        std::string tail = choice_s("tail", "slack");
        std::int64_t res = choice("res", 0) & 0xFF0;              // multiple of 16 in [0,4096)
        bool want_reuse = choice("reuse", 0) != 0;
        unsigned char fill = (unsigned char)(choice("fill", 0x5A) | 1);
        // immediate reuse of a freed span (ABA): same base address if it fits the request
        if (want_reuse) {
            for (std::size_t k = free_spans.size(); k-- > 0;) {
                Block& ob = blocks[(std::size_t)free_spans[k]];
                if (ob.base % al == 0 && ob.base + eff <= ob.span + ob.span_len) {
                    Block nb = ob; nb.size = size; nb.live = true; nb.quarantined = false; nb.op_serial = c->serial; nb.call = call; nb.align_req = al; nb.fill = fill;
                    free_spans.erase(free_spans.begin() + (long)k);
                    mprotect((void*)nb.span, nb.span_len, PROT_READ | PROT_WRITE);
                    paint(nb);
                    blocks.push_back(nb); c->allocs.push_back((int)blocks.size() - 1);
                    st->faults["reuse_same_address"]++;
                    rr->log.linef("  heap %s(%zu,al=%zu) -> +%llx (reused)", call, size, al, (unsigned long long)(nb.base - ARENA_BASE));
                    return (void*)nb.base;
                }
            }
        }
        std::size_t pages = (eff + al + PG - 1) / PG + 2;          // room for any residue
        std::size_t need = (pages + 2) * PG;
        // keep spans aligned so that large alignments can always be honoured inside the span
        std::size_t span_al = al > PG ? al : PG;
        std::size_t start = (bump + PG + span_al - 1) / span_al * span_al;   // leaves >= one guard page before
        if (start + need > ARENA_SIZE) { rr->harness_error = "SimHeap arena exhausted"; return nullptr; }
        Block b; b.span = ARENA_BASE + start; b.span_len = pages * PG; b.size = size; b.live = true; b.op_serial = c->serial; b.call = call; b.align_req = al; b.fill = fill;
        bump = start + b.span_len + PG;                              // guard page after
        std::uintptr_t end = b.span + b.span_len;
        if (tail == "flush") {
            b.base = (end - eff) / al * al;                           // last byte as close to the guard page as alignment allows
            if (b.base + eff == end) st->probes["tail_flush_exact"]++; else st->probes["tail_flush_with_slack"]++;
        } else if (al <= 16) {
            b.base = b.span + (std::uintptr_t)res;                    // chosen residue mod 4096 (res==0: first byte right after a guard page)
            if (res == 0) st->probes["start_flush_after_guard"]++;
        } else {
            // memalign-style: exactly al-aligned; residue mod 2*al chosen (not "accidentally more aligned")
            std::uintptr_t first = (b.span + al - 1) / al * al;
            bool odd = (res / 16) & 1;
            if (((first / al) & 1) != (odd ? 1u : 0u) && first + al + eff <= end) first += al;
            b.base = first;
        }
        mprotect((void*)b.span, b.span_len, PROT_READ | PROT_WRITE);
        paint(b);
        blocks.push_back(b); c->allocs.push_back((int)blocks.size() - 1);
        rr->log.linef("  heap %s(%zu,al=%zu) -> +%llx tail=%s", call, size, al, (unsigned long long)(b.base - ARENA_BASE), tail.c_str());
        return (void*)b.base;
    }

    // canary everywhere in the span, seeded garbage inside the block; ASan-poison the slack
    void paint(const Block& b) {
        unsigned char* s = (unsigned char*)b.span;
        if (__asan_unpoison_memory_region) __asan_unpoison_memory_region(s, b.span_len);
        for (std::size_t i = 0; i < b.span_len; ++i) s[i] = canary_byte(b.span + i);
        unsigned char* p = (unsigned char*)b.base;
        for (std::size_t i = 0; i < b.size; ++i) p[i] = (unsigned char)(b.fill + i * 3) | 1;
        if (__asan_poison_memory_region) {
            __asan_poison_memory_region(s, b.base - b.span);
            __asan_poison_memory_region((void*)(b.base + b.size), b.span + b.span_len - (b.base + b.size));
        }
    }
    // returns "" or a description of the first damaged canary byte of a live/quarantined span
    std::string check_canaries() {
        for (std::size_t k = 0; k < blocks.size(); ++k) {
            const Block& b = blocks[k]; if (!b.live) continue;
            const unsigned char* s = (const unsigned char*)b.span;
            std::size_t lo = b.base - b.span, hi = lo + b.size;
            for (std::size_t i = 0; i < b.span_len; ++i) {
                if (i == lo) { i = hi; if (i >= b.span_len) break; }
                if (s[i] != canary_byte(b.span + i)) {
                    char d[160]; std::snprintf(d, sizeof d, "byte at %+lld relative to the %s block [%zu bytes] was overwritten (outside what the heap handed out)",
                        (long long)i - (long long)lo, b.call, b.size);
                    return d;
                }
            }
        }
        return "";
    }

    void sim_free(void* p) {
        OpCtx* c = tl_ctx;
        bool yflag = c->step && (c->step->num("y") & 4);
        if (yflag) yield_point("free_enter");
        if (p) {
            std::uintptr_t a = (std::uintptr_t)p; int found = -1;
            for (std::size_t k = blocks.size(); k-- > 0;) if (blocks[k].base == a && (blocks[k].live || blocks[k].quarantined)) { found = (int)k; break; }
            if (found >= 0 && blocks[(std::size_t)found].live) {
                Block& b = blocks[(std::size_t)found];
                c->frees.push_back({a, found});
                b.live = false; b.quarantined = true;
                if (__asan_unpoison_memory_region) __asan_unpoison_memory_region((void*)b.span, b.span_len);
                std::memset((void*)b.span, 0xDD, b.span_len);
                mprotect((void*)b.span, b.span_len, PROT_NONE);
                free_spans.push_back(found);
                rr->log.linef("  heap free(+%llx) ok", (unsigned long long)(a - ARENA_BASE));
            } else {
                c->frees.push_back({a, -1});
                char d[160];
                if (found >= 0) std::snprintf(d, sizeof d, "double free of +%llx", (unsigned long long)(a - ARENA_BASE));
                else if (in_arena(a)) std::snprintf(d, sizeof d, "invalid free: +%llx is not the start of a live heap block", (unsigned long long)(a - ARENA_BASE));
                else std::snprintf(d, sizeof d, "invalid free: %p was never returned by the heap", p);
                c->heap_errors.push_back(d);
                rr->log.linef("  heap free -> %s", d);
            }
        } else rr->log.line("  heap free(NULL)");
        c->heapcalls++;
        if (yflag) yield_point("free_exit");
    }

    //------------------------------------------------------------ running AVEL operations
    // Executes fn() as one AVEL operation with the heap diverted; converts faults into violations.
    template<class F> bool avel_op(OpCtx& c, const Step& s, int stepno, const char* opname, F fn) {
        c.serial = ++op_serial; c.task = tl_task; c.step = &s;
        sigjmp_buf jb; sigjmp_buf* prev = tl_jmp; bool ok = true;
        if (sigsetjmp(jb, 1) == 0) {
            tl_jmp = &jb; tl_ctx = &c;
            // ambient errno: whatever an unrelated earlier call of the thread left behind (the C library never resets it); the plan decides it
            errno = (int)s.num("errno", 0); if (errno) st->faults["ambient_errno_nonzero"]++;
            fn();
            tl_ctx = nullptr; tl_jmp = prev;
        } else {
            tl_ctx = nullptr; tl_jmp = prev; ok = false;
            std::uintptr_t a = tl_fault_addr; char d[256];
            if (c.injected_fail) {
                st->obs["null_dereference_after_injected_enomem_out_of_scope"]++;
                rr->observations.push_back("operation dereferenced the null result of an injected allocation failure (C18 is silent on exhaustion): run stopped, not judged");
                rr->log.linef("%d %s faulted after injected ENOMEM (out of scope)", stepno, opname);
                aborted = true; return false;
            }
            const char* rw = tl_fault_write ? "write" : "read";
            if (tl_fault_sig == SIGILL) {
                // -fsanitize-trap=undefined: the compiler's UB check fired inside the AVEL operation
                std::snprintf(d, sizeof d, "undefined-behaviour trap (UBSan, -fsanitize-trap) at text offset 0x%llx during %s", (unsigned long long)(tl_fault_rip - (std::uintptr_t)&__executable_start), opname);
                rr->violate("C18", stepno, {"C18", "ub_trap", opname, impl}, d);
            } else if (in_arena(a)) {
                // nearest block
                long best = -1; long long bestd = 0;
                for (std::size_t k = 0; k < blocks.size(); ++k) {
                    long long dd = (long long)a - (long long)blocks[k].base; if (dd >= (long long)blocks[k].size) dd -= (long long)blocks[k].size - 1;
                    if (best < 0 || std::llabs(dd) < std::llabs(bestd)) { best = (long)k; bestd = dd; }
                }
                const Block* b = best >= 0 ? &blocks[(std::size_t)best] : nullptr;
                std::snprintf(d, sizeof d, "%s of inaccessible heap memory at +%llx (%+lld bytes from the %s %s block of %zu bytes)", rw,
                    (unsigned long long)(a - ARENA_BASE), bestd, b && b->live ? "live" : "freed", b ? b->call : "?", b ? b->size : 0);
                rr->violate("C18", stepno, {"C18", b && !b->live ? "use_after_free" : "out_of_block_access", opname, impl}, d);
            } else {
                std::snprintf(d, sizeof d, "%s of wild address %p during %s", rw, (void*)a, opname);
                rr->violate("C18", stepno, {"C18", "wild_access", opname, impl}, d);
            }
            rr->log.linef("%d %s FAULT %s", stepno, opname, d);
            aborted = true;
        }
        return ok;
    }

    // oracles that apply after every operation
    void post_op(OpCtx& c, int stepno, const char* opname) {
        for (auto& e : c.heap_errors) rr->violate("C18", stepno, {"C18", "invalid_free", opname, impl}, e);
        for (auto& e : c.san_reports) rr->violate("C18", stepno, {"C18", "sanitizer", opname, impl}, e);
        std::string cd = check_canaries();
        if (!cd.empty()) rr->violate("C18", stepno, {"C18", "heap_slack_overwritten", opname, impl}, cd);
        // every live user range still holds the last pattern written to it
        for (auto& pb : pool) {
            if (!pb.written) continue;
            const unsigned char* p = (const unsigned char*)pb.p; std::size_t bytes = pb.n * pb.ops->S;
            for (std::size_t i = 0; i < bytes; ++i) if (p[i] != pat_byte(pb.pat, i)) {
                char d[200]; std::snprintf(d, sizeof d, "live allocation (S=%u A=%u n=%zu) byte %zu changed from %02x to %02x during %s of another block", pb.ops->S, pb.ops->A, pb.n, i, pat_byte(pb.pat, i), p[i], opname);
                rr->violate("C18", stepno, {"C18", "live_block_disturbed", opname, impl}, d); return;
            }
        }
        if (c.preempted_inside) st->probes[std::string("preempted_inside_") + opname]++;
    }

    const HOps* find_ops(unsigned S, unsigned A, unsigned TA = 0) { if (!TA) TA = S; for (std::size_t i = 0; i < nreg; ++i) if (reg[i].S == S && reg[i].A == A && reg[i].TA == TA) return &reg[i]; return nullptr; }

    void do_alloc(const Step& s, int stepno) {
        const HOps* o = find_ops((unsigned)s.num("S"), (unsigned)s.num("A"), (unsigned)s.num("TA")); if (!o) { rr->harness_error = "no such instantiation"; return; }
        std::size_t n = (std::size_t)s.num("n"); int how = (int)s.num("how");
        OpCtx c; void* p = nullptr;
        bool ok = avel_op(c, s, stepno, "allocate", [&] { p = how == 1 ? o->allocate_hint(n, (void*)0x10) : how == 2 ? o->allocate_rebound(n) : o->allocate(n); });
        if (!ok) return;
        std::size_t bytes = n * o->S;
        rr->log.linef("%d allocate S=%u A=%u n=%zu -> %s%llx heapcalls=%d", stepno, o->S, o->A, n, p ? "+" : "", p ? (unsigned long long)((std::uintptr_t)p - ARENA_BASE) : 0ull, c.heapcalls);
        post_op(c, stepno, "allocate");
        if (c.injected_fail) {
            // only what the statement still covers: nothing else disturbed (post_op), nothing leaked
            for (int bi : c.allocs) if (blocks[(std::size_t)bi].live && !p) rr->violate("C18", stepno, {"C18", "leak_on_failure_path", "allocate", impl}, "heap block obtained during a failed allocate was not released");
            if (!p) return;
        }
        std::uintptr_t a = (std::uintptr_t)p;
        // 1. alignment
        if (a % o->A) { char d[120]; std::snprintf(d, sizeof d, "allocate(%zu) returned +%llx, not aligned to A=%u (S=%u)", n, (unsigned long long)(a - ARENA_BASE), o->A, o->S);
            rr->violate("C18", stepno, {"C18", "misaligned_pointer", "allocate", impl}, d); }
        // 2. range inside exactly one live block requested during this call; every heap call owned or freed
        int owner = -1; int live_from_call = 0;
        for (int bi : c.allocs) { const Block& b = blocks[(std::size_t)bi]; if (!b.live) continue; ++live_from_call;
            if (a >= b.base && a + bytes <= b.base + b.size) owner = bi; }
        if (!p) {
            if (n != 0) { rr->violate("C18", stepno, {"C18", "null_result", "allocate", impl}, "allocate(n>0) returned null although the heap served every request"); }
            if (live_from_call) rr->violate("C18", stepno, {"C18", "leak", "allocate", impl}, "allocate returned null but kept a heap block");
            st->probes["allocate0_null"]++;
            if (n == 0) pool.push_back({p, n, o, 0, false, tl_task, -1});
            return;
        }
        if (owner < 0 && !(bytes == 0 && live_from_call == 1)) {
            char d[200]; std::snprintf(d, sizeof d, "returned range [+%llx,+%zu bytes) is not inside a heap block obtained by this call (S=%u A=%u n=%zu)", (unsigned long long)(a - ARENA_BASE), bytes, o->S, o->A, n);
            rr->violate("C18", stepno, {"C18", "range_outside_block", "allocate", impl}, d);
        }
        if (owner < 0) for (int bi : c.allocs) if (blocks[(std::size_t)bi].live) owner = bi;
        if (live_from_call > 1) rr->violate("C18", stepno, {"C18", "leak", "allocate", impl}, "allocate obtained more than one heap block and kept them");
        for (auto& pb : pool) { std::uintptr_t q = (std::uintptr_t)pb.p, qb = pb.n * pb.ops->S;
            if (bytes && qb && a < q + qb && q < a + bytes) rr->violate("C18", stepno, {"C18", "overlap", "allocate", impl}, "returned range overlaps another live allocation"); }
        // probes / distinct cases
        const Block* ob = owner >= 0 ? &blocks[(std::size_t)owner] : nullptr;
        std::string offc = "n/a";
        if (ob && impl == "cxx11" && o->A > 16) {
            std::size_t off = a - ob->base; offc = off == 0 ? "0" : off == 16 ? "16" : off == o->A - 16 ? "A-16" : "mid";
            st->probes["std_align_offset_" + offc]++;
            if (bytes % 8) st->probes["offset_word_at_misaligned_address"]++;
        }
        pool.push_back({p, n, o, 0, false, tl_task, owner});
        {
            char t[200]; std::snprintf(t, sizeof t, "%s|S%u|A%u|n%%16=%zu|off=%s|tail=%s|reuse=%d|live=%zu|alloc|pre=%d", impl.c_str(), o->S, o->A, bytes % 16, offc.c_str(),
                s.str("tail", "slack").c_str(), (int)(s.num("reuse") != 0), pool.size() > 4 ? 4 : pool.size(), (int)c.preempted_inside);
            st->case_seen(t, pool.size() > 1);
        }
    }

    void do_dealloc(const Step& s, int stepno) {
        if (pool.empty()) { rr->log.linef("%d dealloc skipped (no live block)", stepno); return; }
        std::size_t k = (std::size_t)s.unum("ref") % pool.size();
        PoolBlock pb = pool[k]; pool.erase(pool.begin() + (long)k);
        if (pb.by_task != tl_task) st->probes["cross_task_deallocate"]++;
        OpCtx c;
        bool ok = avel_op(c, s, stepno, "deallocate", [&] { pb.ops->deallocate(pb.p, pb.n); });
        if (!ok) return;
        rr->log.linef("%d deallocate S=%u A=%u n=%zu frees=%zu", stepno, pb.ops->S, pb.ops->A, pb.n, c.frees.size());
        post_op(c, stepno, "deallocate");
        // 4. exactly one free, of exactly the block allocate obtained
        int good = 0; for (auto& f : c.frees) if (f.block == pb.block && f.block >= 0) ++good;
        if (pb.block >= 0) {
            if (good != 1 || c.frees.size() != 1) {
                char d[200]; std::snprintf(d, sizeof d, "deallocate(S=%u A=%u n=%zu) performed %zu frees, %d of them of the block allocate obtained", pb.ops->S, pb.ops->A, pb.n, c.frees.size(), good);
                rr->violate("C18", stepno, {"C18", c.frees.empty() ? "leak" : "wrong_free", "deallocate", impl}, d);
            }
        } else if (!c.frees.empty()) rr->violate("C18", stepno, {"C18", "wrong_free", "deallocate", impl}, "deallocate of a null allocation freed something");
        if (!c.allocs.empty()) rr->violate("C18", stepno, {"C18", "leak", "deallocate", impl}, "deallocate allocated memory");
        char t[160]; std::snprintf(t, sizeof t, "%s|S%u|A%u|n%%16=%zu|dealloc|written=%d|live=%zu|pre=%d|x=%d", impl.c_str(), pb.ops->S, pb.ops->A, (pb.n * pb.ops->S) % 16, (int)pb.written,
            pool.size() > 4 ? 4 : pool.size(), (int)c.preempted_inside, (int)(pb.by_task != tl_task));
        st->case_seen(t, pb.written && !pool.empty());
    }

    void do_write(const Step& s, int stepno) {
        if (pool.empty()) { rr->log.linef("%d write skipped", stepno); return; }
        PoolBlock& pb = pool[(std::size_t)s.unum("ref") % pool.size()];
        unsigned pat = (unsigned)s.unum("pat") & 0xFF; std::size_t bytes = pb.n * pb.ops->S;
        unsigned char* p = (unsigned char*)pb.p;
        // the "user" writes every byte it was promised; a fault here means the promise was broken
        OpCtx c; sigjmp_buf jb; sigjmp_buf* prev = tl_jmp;
        if (sigsetjmp(jb, 1) == 0) { tl_jmp = &jb; for (std::size_t i = 0; i < bytes; ++i) p[i] = pat_byte(pat, i); tl_jmp = prev; }
        else { tl_jmp = prev; char d[160]; std::snprintf(d, sizeof d, "writing byte of the promised %zu bytes faulted at +%llx (S=%u A=%u n=%zu)", bytes, (unsigned long long)(tl_fault_addr - ARENA_BASE), pb.ops->S, pb.ops->A, pb.n);
            rr->violate("C18", stepno, {"C18", "promised_bytes_not_writable", "write", impl}, d); aborted = true; return; }
        pb.pat = pat; pb.written = true;
        rr->log.linef("%d write ref S=%u n=%zu pat=%u", stepno, pb.ops->S, pb.n, pat);
        c.serial = ++op_serial; post_op(c, stepno, "write");
        st->probes["full_block_writes"]++;
    }

    void do_misc(const Step& s, int stepno) {
        const HOps* o = find_ops((unsigned)s.num("S"), (unsigned)s.num("A"), (unsigned)s.num("TA")); if (!o) return;
        OpCtx c; bool r = true; if (!avel_op(c, s, stepno, "misc", [&] { r = o->misc(); })) return;
        rr->log.linef("%d misc S=%u A=%u -> %d", stepno, o->S, o->A, (int)r);
        post_op(c, stepno, "misc");
        if (!r) rr->violate("C18", stepno, {"C18", "allocator_requirements", "misc", impl}, "copy/move/compare/select_on_container_copy_construction/max_size misbehave");
        if (c.heapcalls) rr->violate("C18", stepno, {"C18", "leak", "misc", impl}, "copying or comparing allocators touched the heap");
    }

    // containers ------------------------------------------------
    static void elem_bytes(unsigned S, std::uint64_t tag, unsigned char* out) { for (unsigned i = 0; i < S; ++i) out[i] = (unsigned char)((tag * 0x9E37u + i * 29u + (tag >> 8)) | 1u); }

    bool cont_check(Container& ct, int stepno, const char* opname) {
        unsigned S = ct.ops->S; unsigned char buf[64];
        if (ct.kind == 'v') {
            std::size_t sz = ct.ops->vsize(ct.h);
            if (sz != ct.model.size()) { rr->violate("C18", stepno, {"C18", "container_diverged", opname, impl}, "vector size differs from the reference container"); return false; }
            const unsigned char* d = (const unsigned char*)ct.ops->vdata(ct.h);
            if (ct.ops->vcap(ct.h) && ((std::uintptr_t)d % ct.ops->A)) { rr->violate("C18", stepno, {"C18", "misaligned_pointer", opname, impl}, "vector storage not aligned to A"); return false; }
            for (std::size_t i = 0; i < sz; ++i) if (std::memcmp(d + i * S, ct.model[i].data(), S)) {
                char m[120]; std::snprintf(m, sizeof m, "vector<S=%u,A=%u> element %zu of %zu differs from the reference container", S, ct.ops->A, i, sz);
                rr->violate("C18", stepno, {"C18", "container_diverged", opname, impl}, m); return false; }
        } else {
            std::size_t sz = ct.ops->lsize(ct.h);
            if (sz != ct.model.size()) { rr->violate("C18", stepno, {"C18", "container_diverged", opname, impl}, "list size differs from the reference container"); return false; }
            for (std::size_t i = 0; i < sz; ++i) { ct.ops->lget(ct.h, i, buf); if (std::memcmp(buf, ct.model[i].data(), S)) {
                rr->violate("C18", stepno, {"C18", "container_diverged", opname, impl}, "list element differs from the reference container"); return false; } }
        }
        return true;
    }

    void do_cont(const Step& s, int stepno) {
        const std::string& op = s.op; OpCtx c; unsigned char eb[64];
        if (op == "vnew" || op == "lnew") {
            const HOps* o = find_ops((unsigned)s.num("S"), (unsigned)s.num("A"), (unsigned)s.num("TA")); if (!o || (op == "lnew" && !o->lnew)) { rr->log.linef("%d %s skipped", stepno, op.c_str()); return; }
            ContP np = std::make_shared<Container>(); Container& ct = *np; ct.kind = op[0]; ct.ops = o; ct.h = nullptr;
            if (!avel_op(c, s, stepno, op.c_str(), [&] { ct.h = op[0] == 'v' ? o->vnew() : o->lnew(); })) return;
            conts.push_back(np); rr->log.linef("%d %s S=%u A=%u", stepno, op.c_str(), o->S, o->A); post_op(c, stepno, op.c_str()); return;
        }
        if (conts.empty()) { rr->log.linef("%d %s skipped (no container)", stepno, op.c_str()); return; }
        std::size_t ci = (std::size_t)s.unum("c") % conts.size();
        ContP ctp = conts[ci]; Container& ct = *ctp;
        // a container is owned by one task while an operation on it is in flight (two tasks mutating one
        // std::vector would be the CALLER's data race, not AVEL's)
        if (ct.busy) { rr->log.linef("%d %s skipped (container busy in another task)", stepno, op.c_str()); st->probes["container_busy_skips"]++; return; }
        struct Busy { Container& c; Busy(Container& c_) : c(c_) { c.busy = true; } ~Busy() { c.busy = false; } } busy_guard(ct);
        const HOps* o = ct.ops; std::size_t m = (std::size_t)s.unum("m"); std::uint64_t tag = s.unum("val");
        std::size_t calls_before = 0; bool ok = true;
        auto mkel = [&](std::uint64_t t) { elem_bytes(o->S, t, eb); return std::vector<unsigned char>(eb, eb + o->S); };
        if (ct.kind == 'v') {
            if (op == "vpush") {
                ok = avel_op(c, s, stepno, "vpush", [&] { for (std::size_t i = 0; i < m; ++i) { elem_bytes(o->S, tag + i, eb); o->vpush(ct.h, eb); } });
                if (ok) for (std::size_t i = 0; i < m; ++i) ct.model.push_back(mkel(tag + i));
            } else if (op == "vresize") {
                ok = avel_op(c, s, stepno, "vresize", [&] { elem_bytes(o->S, tag, eb); o->vresize(ct.h, m, eb); });
                if (ok) ct.model.resize(m, mkel(tag));
            } else if (op == "vreserve") { ok = avel_op(c, s, stepno, "vreserve", [&] { o->vreserve(ct.h, m); }); }
            else if (op == "vshrink") { ok = avel_op(c, s, stepno, "vshrink", [&] { o->vshrink(ct.h); }); }
            else if (op == "vclear") { ok = avel_op(c, s, stepno, "vclear", [&] { o->vclear(ct.h); }); if (ok) ct.model.clear(); }
            else if (op == "vcopy" || op == "vmove") {
                ContP ncp = std::make_shared<Container>(); Container& nc = *ncp; nc.kind = 'v'; nc.ops = o; nc.h = nullptr; bool mv = op == "vmove";
                ok = avel_op(c, s, stepno, op.c_str(), [&] { nc.h = mv ? o->vmove(ct.h) : o->vcopy(ct.h); });
                if (ok) { nc.model = ct.model; if (mv) ct.model.clear(); conts.push_back(ncp); }
            } else if (op == "vswap" || op == "vassign") {
                std::size_t dj = (std::size_t)s.unum("d") % conts.size(); ContP dtp = conts[dj]; Container& dt = *dtp;
                if (dt.kind != 'v' || dt.ops != o || dj == ci || dt.busy) { rr->log.linef("%d %s skipped (incompatible)", stepno, op.c_str()); return; }
                dt.busy = true;
                if (op == "vswap") { ok = avel_op(c, s, stepno, "vswap", [&] { o->vswap(ct.h, dt.h); }); if (ok) std::swap(ct.model, dt.model); }
                else { ok = avel_op(c, s, stepno, "vassign", [&] { o->vassign(dt.h, ct.h); }); if (ok) dt.model = ct.model; }
                dt.busy = false;
                if (ok) cont_check(dt, stepno, op.c_str());
            } else if (op == "vdel") {
                void* h = ct.h; ok = avel_op(c, s, stepno, "vdel", [&] { o->vdel(h); });
                for (std::size_t q = 0; q < conts.size(); ++q) if (conts[q] == ctp) { conts.erase(conts.begin() + (long)q); break; }
                rr->log.linef("%d vdel frees=%zu", stepno, c.frees.size()); post_op(c, stepno, "vdel"); return;
            } else { rr->log.linef("%d %s skipped (not a vector)", stepno, op.c_str()); return; }
        } else {
            if (op == "lpush") {
                ok = avel_op(c, s, stepno, "lpush", [&] { for (std::size_t i = 0; i < m; ++i) { elem_bytes(o->S, tag + i, eb); if ((tag + i) & 1) o->lpush_back(ct.h, eb); else o->lpush_front(ct.h, eb); } });
                if (ok) for (std::size_t i = 0; i < m; ++i) { if ((tag + i) & 1) ct.model.push_back(mkel(tag + i)); else ct.model.insert(ct.model.begin(), mkel(tag + i)); }
            }
            else if (op == "lpop") { std::size_t k = std::min(m, ct.model.size());
                ok = avel_op(c, s, stepno, "lpop", [&] { for (std::size_t i = 0; i < k; ++i) { if ((tag + i) & 1) o->lpop_back(ct.h); else o->lpop_front(ct.h); } });
                if (ok) for (std::size_t i = 0; i < k; ++i) { if ((tag + i) & 1) ct.model.pop_back(); else ct.model.erase(ct.model.begin()); } }
            else if (op == "ldel") { void* h = ct.h; ok = avel_op(c, s, stepno, "ldel", [&] { o->ldel(h); }); for (std::size_t q = 0; q < conts.size(); ++q) if (conts[q] == ctp) { conts.erase(conts.begin() + (long)q); break; }
                rr->log.linef("%d ldel frees=%zu", stepno, c.frees.size()); post_op(c, stepno, "ldel"); return; }
            else { rr->log.linef("%d %s skipped (not a list)", stepno, op.c_str()); return; }
        }
        (void)calls_before;
        if (!ok) return;
        rr->log.linef("%d %s c=%zu S=%u A=%u m=%zu size=%zu heapcalls=%d frees=%zu", stepno, op.c_str(), ci, o->S, o->A, m, ct.model.size(), c.heapcalls, c.frees.size());
        post_op(c, stepno, op.c_str());
        // allocator-level checks on what the container asked of the heap during this step
        for (int bi : c.allocs) { const Block& b = blocks[(std::size_t)bi]; (void)b; }
        cont_check(ct, stepno, op.c_str());
        st->probes["container_steps"]++;
        if (c.heapcalls) { char t[120]; std::snprintf(t, sizeof t, "%s|S%u|A%u|%s|calls=%d|pre=%d", impl.c_str(), o->S, o->A, op.c_str(), c.heapcalls > 3 ? 3 : c.heapcalls, (int)c.preempted_inside); st->case_seen(t, true); }
    }

    void run_step(const Step& s, int stepno) {
        if (s.num("y") & 1) yield_point("op_start");
        if (aborted || rr->v.set) return;
        // Anything the harness itself touches during a step is storage AVEL handed out (live blocks, container contents).  If
        // that faults - e.g. a block recycled from hidden allocator state that outlived the heap it came from - it is a violation
        // ("stays valid until passed to deallocate"), not a harness crash.
        sigjmp_buf jb; sigjmp_buf* prev = tl_jmp;
        if (sigsetjmp(jb, 1) != 0) {
            tl_jmp = prev; tl_ctx = nullptr;
            char d[200]; std::snprintf(d, sizeof d, "storage obtained from allocate() is not accessible: %s fault at %p while the caller used or verified a live allocation during '%s'", tl_fault_write ? "write" : "read", (void*)tl_fault_addr, s.op.c_str());
            rr->violate("C18", stepno, {"C18", "live_storage_inaccessible", s.op[0] == 'v' || s.op[0] == 'l' ? "container" : s.op, impl}, d);
            rr->log.linef("%d %s FAULT in caller code: %s", stepno, s.op.c_str(), d);
            aborted = true; return;
        }
        tl_jmp = &jb;
        struct Restore { sigjmp_buf* p; ~Restore() { tl_jmp = p; } } restore_{prev};
        if (s.op == "alloc") do_alloc(s, stepno);
        else if (s.op == "dealloc") do_dealloc(s, stepno);
        else if (s.op == "write") do_write(s, stepno);
        else if (s.op == "check") { OpCtx c; c.serial = ++op_serial; rr->log.linef("%d check", stepno); post_op(c, stepno, "check"); }
        else if (s.op == "misc") do_misc(s, stepno);
        else if (s.op[0] == 'v' || s.op[0] == 'l') do_cont(s, stepno);
        else rr->harness_error = "unknown step op " + s.op;
        if (rr->v.set) aborted = true;
    }

    void task_body(int id, const std::vector<int>& idx) {
        tl_task = id; sigjmp_buf top; task_top[(std::size_t)id] = &top;
        if (ntasks > 1) { std::unique_lock<std::mutex> lk(mu); cv.wait(lk, [&] { return turn == id; }); }
        if (sigsetjmp(top, 1) == 0 && !aborted) {
            for (int si : idx) { if (aborted || !rr->harness_error.empty()) break; run_step(plan->steps[(std::size_t)si], si); rr->steps_done = std::max(rr->steps_done, si + 1); }
        }
        tl_ctx = nullptr; tl_jmp = nullptr;
        task_top[(std::size_t)id] = nullptr; task_done[(std::size_t)id] = 1;
        if (ntasks > 1) {
            // pass the baton on: to the next runnable task, or back to the main thread (-1)
            std::unique_lock<std::mutex> lk(mu);
            int next = -1; for (int i = 0; i < ntasks; ++i) if (!task_done[(std::size_t)i]) { next = aborted ? i : pick_next(); break; }
            turn = next; cv.notify_all();
        }
        tl_task = -1;
    }

    void execute(const Plan& pl, RunResult& r, Stats& s) override {
        rr = &r; st = &s; plan = &pl; arena_reset(); pool.clear(); conts.clear(); op_serial = 0; aborted = false;
        ntasks = (int)std::max<std::int64_t>(1, std::min<std::int64_t>(4, pl.head.num("tasks", 1)));
        faultmode = pl.head.num("faultmode") != 0;
        sched = pl.head.list("sched"); sched_pos = 0; yields = switches = 0; sched_hash = 0;
        task_done.assign((std::size_t)ntasks, 0); task_top.assign((std::size_t)ntasks, nullptr);
        r.log.line(pl.head.text());
        std::vector<std::vector<int>> scripts((std::size_t)ntasks);
        for (std::size_t i = 0; i < pl.steps.size(); ++i) scripts[(std::size_t)(pl.steps[i].unum("task") % (std::uint64_t)ntasks)].push_back((int)i);
        if (ntasks == 1) task_body(0, scripts[0]);
        else {
            turn = -2; std::vector<std::thread> th;
            for (int i = 0; i < ntasks; ++i) th.emplace_back([this, i, &scripts] { task_body(i, scripts[(std::size_t)i]); });
            { std::unique_lock<std::mutex> lk(mu); tl_task = -1; turn = pick_first(); cv.notify_all(); cv.wait(lk, [&] { return turn == -1; }); }
            for (auto& t : th) t.join();
            s.probes["multi_task_runs"]++; s.probes["task_switches"] += switches; s.probes["yield_points_hit"] += yields;
            scheds_seen.insert(sched_hash);
            r.log.linef("sched yields=%llu switches=%llu h=%016llx", (unsigned long long)yields, (unsigned long long)switches, (unsigned long long)sched_hash);
        }
        // implicit epilogue: release everything, then the heap must be empty (no leak on any path)
        if (!aborted && !r.v.set && r.harness_error.empty()) {
            tl_task = 0; int ep = (int)pl.steps.size(); Step e; e.op = "epilogue"; int saved = ntasks; ntasks = 1;
            while (!conts.empty() && !aborted && !r.v.set) { Step d = e; d.op = conts.back()->kind == 'v' ? "vdel" : "ldel"; d.setu("c", conts.size() - 1); d.set("y", 0); run_step(d, ep); }
            while (!pool.empty() && !aborted && !r.v.set) { Step d = e; d.op = "dealloc"; d.setu("ref", pool.size() - 1); d.set("y", 0); run_step(d, ep); }
            ntasks = saved; tl_task = -1;
            if (!aborted && !r.v.set) {
                std::size_t live = 0; for (auto& b : blocks) if (b.live) ++live;
                if (live) { char d[100]; std::snprintf(d, sizeof d, "%zu heap blocks still live after every allocation was deallocated", live); r.violate("C18", ep, {"C18", "leak", "epilogue", impl}, d); }
                s.probes["runs_ending_with_empty_heap"]++;
            }
        } else {
            // abandoned run: containers that were never destroyed are leaked on purpose (their storage is arena memory)
            conts.clear(); pool.clear();
        }
        s.probes[std::string("impl_") + impl]++;
        rr = nullptr; st = nullptr; plan = nullptr;
    }
    int pick_first() { std::int64_t c = sched.empty() ? 0 : sched[sched_pos++ % sched.size()]; return (int)((c < 0 ? -c : c) % ntasks); }

    //------------------------------------------------------------ plan generation
    struct SweepCase { unsigned reg; unsigned ncls, rcls, tail; bool cont; };
    std::vector<SweepCase> sweep;
    static std::size_t n_of_class(unsigned cls, unsigned S, unsigned A) {
        std::size_t perA = A / S ? A / S : 1;
        switch (cls) { case 0: return 0; case 1: return 1; case 2: return 2; case 3: return 3; case 4: return 7; case 5: return perA; case 6: return perA + 1;
                       case 7: return perA > 1 ? perA - 1 : 5; case 8: return 2 * perA + 3; case 9: return 8 / S ? 8 / S + 1 : 9; case 10: return 33; default: return 257; }
    }
    static std::int64_t res_of_class(unsigned cls, unsigned A) {
        switch (cls) { case 0: return 0; case 1: return 16; case 2: return (A - 16) & 0xFF0; case 3: return A & 0xFF0; case 4: return (A + 16) & 0xFF0; default: return 0x7B0; }
    }
    void build_sweep() {
        for (unsigned r = 0; r < nreg; ++r) {
            for (unsigned nc = 0; nc < 12; ++nc) for (unsigned rc = 0; rc < 6; ++rc) for (unsigned tl = 0; tl < 2; ++tl) { if (tl == 1 && rc > 0) continue; sweep.push_back({r, nc, rc, tl, false}); }
            sweep.push_back({r, 0, 0, 0, true}); sweep.push_back({r, 0, 2, 1, true});
        }
    }
    std::uint64_t sweep_count() override { return sweep.size(); }

    void head(Plan& out, const char* kind) { out.head.op = "plan"; out.head.set("engine", "heap"); out.head.set("prop", "C18"); out.head.set("kind", kind); out.head.set("tasks", 1); out.head.set("faultmode", 0); }

    void sweep_plan(std::uint64_t i, Plan& out) override {
        const SweepCase& sc = sweep[(std::size_t)i]; const HOps& o = reg[sc.reg]; head(out, "sweep");
        static const int ERRS[6] = {0, EINVAL, 0, ENOMEM, EINTR, ERANGE};
        auto base = [&](const char* op) { Step s; s.op = op; s.set("task", 0); if (ERRS[i % 6]) s.set("errno", ERRS[i % 6]); return s; };
        std::int64_t res = res_of_class(sc.rcls, o.A); const char* tail = sc.tail ? "flush" : "slack";
        if (!sc.cont) {
            std::size_t n = n_of_class(sc.ncls, o.S, o.A);
            Step a0 = base("alloc"); a0.set("S", o.S); a0.set("A", o.A); if (o.TA != o.S) a0.set("TA", o.TA); a0.set("n", 5); a0.set("res", 48); a0.set("tail", "slack"); out.steps.push_back(a0);
            Step w0 = base("write"); w0.set("ref", 0); w0.set("pat", 255); out.steps.push_back(w0);
            Step a1 = base("alloc"); a1.set("S", o.S); a1.set("A", o.A); if (o.TA != o.S) a1.set("TA", o.TA); a1.setu("n", n); a1.set("res", res); a1.set("tail", tail); a1.set("how", (int)(i % 3)); out.steps.push_back(a1);
            Step w1 = base("write"); w1.set("ref", 1); w1.set("pat", (std::int64_t)(i % 254 + 1)); out.steps.push_back(w1);
            Step a2 = base("alloc"); a2.set("S", o.S); a2.set("A", o.A); if (o.TA != o.S) a2.set("TA", o.TA); a2.setu("n", n + 1); a2.set("res", res); a2.set("tail", tail); a2.set("reuse", 1); out.steps.push_back(a2);
            Step w2 = base("write"); w2.set("ref", 2); w2.set("pat", 0); out.steps.push_back(w2);
            Step d1 = base("dealloc"); d1.set("ref", 1); out.steps.push_back(d1);
            Step a3 = base("alloc"); a3.set("S", o.S); a3.set("A", o.A); if (o.TA != o.S) a3.set("TA", o.TA); a3.setu("n", n); a3.set("res", res); a3.set("tail", tail); a3.set("reuse", 1); out.steps.push_back(a3);
            Step w3 = base("write"); w3.set("ref", 2); w3.set("pat", 77); out.steps.push_back(w3);
            out.steps.push_back(base("check"));
        } else {
            Step m = base("misc"); m.set("S", o.S); m.set("A", o.A); if (o.TA != o.S) m.set("TA", o.TA); out.steps.push_back(m);
            Step v = base("vnew"); v.set("S", o.S); v.set("A", o.A); if (o.TA != o.S) v.set("TA", o.TA); out.steps.push_back(v);
            Step p = base("vpush"); p.set("c", 0); p.set("m", 37); p.set("val", (std::int64_t)i); p.set("res", res); p.set("tail", tail); p.set("reuse", "0,1"); out.steps.push_back(p);
            Step sh = base("vshrink"); sh.set("c", 0); sh.set("tail", "flush"); out.steps.push_back(sh);
            Step cp = base("vcopy"); cp.set("c", 0); cp.set("tail", tail); out.steps.push_back(cp);
            Step rs = base("vresize"); rs.set("c", 1); rs.set("m", 3); rs.set("val", 9); out.steps.push_back(rs);
            Step sw = base("vswap"); sw.set("c", 0); sw.set("d", 1); out.steps.push_back(sw);
            Step as = base("vassign"); as.set("c", 0); as.set("d", 1); as.set("tail", "flush"); out.steps.push_back(as);
            Step mv = base("vmove"); mv.set("c", 1); out.steps.push_back(mv);
            if (o.lnew) {
                Step l = base("lnew"); l.set("S", o.S); l.set("A", o.A); if (o.TA != o.S) l.set("TA", o.TA); out.steps.push_back(l);
                Step lp = base("lpush"); lp.set("c", 3); lp.set("m", 9); lp.set("val", 5); lp.set("tail", "flush,slack"); lp.set("res", res); out.steps.push_back(lp);
                Step lo = base("lpop"); lo.set("c", 3); lo.set("m", 4); lo.set("val", 2); out.steps.push_back(lo);
                Step lq = base("lpush"); lq.set("c", 3); lq.set("m", 3); lq.set("val", 100); lq.set("reuse", 1); out.steps.push_back(lq);
            }
        }
    }

    void generate(Rng& r, Plan& out) override {
        head(out, "seeded");
        int tasks = r.chance(1, 2) ? 1 : (int)r.range(2, 4);
        out.head.set("tasks", tasks);
        bool fm = r.chance(1, 6); out.head.set("faultmode", (int)fm);
        std::vector<std::int64_t> sc; for (int i = 0; i < 48; ++i) sc.push_back((std::int64_t)r.below(12)); out.head.setlist("sched", sc);
        // swarm subset
        std::vector<unsigned> regs; unsigned smask = (unsigned)r.below(63) + 1; unsigned acls = (unsigned)r.below(7) + 1;
        for (unsigned i = 0; i < nreg; ++i) {
            // swarm class of the element: sizes 1,2,4,8,16,64 of the first family; the alignof < sizeof family shares the classes by size
            unsigned si = reg[i].S <= 1 ? 0u : reg[i].S <= 3 ? 1u : reg[i].S <= 4 ? 2u : reg[i].S <= 12 ? 3u : reg[i].S <= 24 ? 4u : 5u;
            unsigned ac = reg[i].A <= 16 ? 1u : reg[i].A <= 256 ? 2u : 4u;
            if (((smask >> si) & 1) && (acls & ac)) regs.push_back(i);
        }
        if (regs.empty()) regs.push_back((unsigned)r.below(nreg));
        if (regs.size() > 6) { for (std::size_t i = regs.size(); i > 1; --i) std::swap(regs[i - 1], regs[r.below(i)]); regs.resize(6); }
        bool containers = !fm && r.chance(2, 3);
        bool yielding = tasks > 1;
        // many short diverse runs; in the thorough tier one run in ten is a long history (deep live sets, long reuse chains)
        unsigned nsteps = (tier == "thorough" && r.chance(1, 10)) ? (unsigned)r.range(100, 400) : (unsigned)r.range(4, 40);
        for (unsigned k = 0; k < nsteps; ++k) {
            Step s; unsigned w = (unsigned)r.below(100); const HOps& o = reg[regs[r.below(regs.size())]];
            auto heapchoices = [&](Step& st, bool single) {
                unsigned cnt = single ? 1 : (unsigned)r.range(1, 3); std::vector<std::int64_t> res, reuse, fill; std::string tail, z;
                for (unsigned i = 0; i < cnt; ++i) {
                    unsigned rc = (unsigned)r.below(8); res.push_back(rc < 5 ? res_of_class(rc, o.A) : (std::int64_t)(r.below(256) * 16));
                    reuse.push_back((std::int64_t)r.chance(1, 3)); fill.push_back((std::int64_t)r.below(256));
                    if (i) { tail += ','; z += ','; } tail += r.chance(1, 2) ? "flush" : "slack"; z += r.chance(1, 3) ? "null" : "uniq";
                }
                st.setlist("res", res); st.set("tail", tail); st.setlist("reuse", reuse); st.setlist("fill", fill); st.set("z", z);
            };
            if (w < 35 || k == 0) {
                s.op = "alloc"; s.set("S", o.S); s.set("A", o.A); if (o.TA != o.S) s.set("TA", o.TA);
                unsigned nc = (unsigned)r.below(16); std::size_t n = nc < 12 ? n_of_class(nc, o.S, o.A) : nc < 15 ? (std::size_t)r.below(70) : (std::size_t)r.below(4097);
                s.setu("n", n); s.set("how", (std::int64_t)r.below(3)); heapchoices(s, true);
                if (fm && r.chance(1, 3)) s.set("fail", 1);
            } else if (w < 55) { s.op = "dealloc"; s.setu("ref", r.below(64)); }
            else if (w < 72) { s.op = "write"; s.setu("ref", r.below(64)); unsigned pc = (unsigned)r.below(6); s.setu("pat", pc == 0 ? 0 : pc == 1 ? 255 : r.below(254) + 1); }
            else if (w < 76) { s.op = "check"; }
            else if (w < 78 || !containers) { s.op = "misc"; s.set("S", o.S); s.set("A", o.A); if (o.TA != o.S) s.set("TA", o.TA); }
            else {
                static const char* cops[] = {"vnew", "vpush", "vpush", "vpush", "vresize", "vreserve", "vshrink", "vcopy", "vmove", "vswap", "vassign", "vclear", "vdel", "lnew", "lpush", "lpush", "lpop", "ldel"};
                s.op = cops[r.below(sizeof cops / sizeof cops[0])];
                if (s.op == "vnew" || s.op == "lnew") { s.set("S", o.S); s.set("A", o.A); if (o.TA != o.S) s.set("TA", o.TA); }
                s.setu("c", r.below(16)); s.setu("d", r.below(16)); s.setu("m", r.chance(1, 8) ? r.below(600) : r.below(24)); s.setu("val", r.below(1u << 20));
                heapchoices(s, false);
            }
            s.setu("task", r.below((std::uint64_t)tasks));
            if (r.chance(1, 3)) { static const int ERRS[6] = {EINVAL, ENOMEM, EINTR, ERANGE, EAGAIN, EDOM}; s.set("errno", ERRS[r.below(6)]); }
            if (yielding) s.setu("y", r.below(8));
            out.steps.push_back(s);
        }
    }

    std::string extra_json() override { return "{\"impl\":\"" + impl + "\",\"distinct_interleavings_this_worker\":" + std::to_string(scheds_seen.size()) + ",\"instantiations\":" + std::to_string(nreg) + ",\"sweep_cases\":" + std::to_string(sweep.size()) + "}"; }
};

} // namespace

//------------------------------------------------------------ the seam: wrapped libc heap
extern "C" {
void* __wrap_malloc(std::size_t n) { if (!tl_ctx) return __real_malloc(n); return g_eng->sim_alloc(n, 16, "malloc"); }
void __wrap_free(void* p) {
    if (!tl_ctx) { if (g_eng && g_eng->in_arena((std::uintptr_t)p)) return; /* arena memory released by arena_reset */ __real_free(p); return; }
    g_eng->sim_free(p);
}
void* __wrap_calloc(std::size_t a, std::size_t b) { if (!tl_ctx) return __real_calloc(a, b); void* p = g_eng->sim_alloc(a * b, 16, "calloc"); if (p) std::memset(p, 0, a * b); return p; }
void* __wrap_realloc(void* p, std::size_t n) {
    if (!tl_ctx) return __real_realloc(p, n);
    void* q = g_eng->sim_alloc(n, 16, "realloc"); if (q && p) { /* size unknown to the caller: copy what the old block had */
        for (auto& b : g_eng->blocks) if (b.base == (std::uintptr_t)p && b.live) std::memcpy(q, p, std::min(n, b.size)); g_eng->sim_free(p); }
    return q;
}
int __wrap_posix_memalign(void** out, std::size_t al, std::size_t n) {
    if (!tl_ctx) return __real_posix_memalign(out, al, n);
    if (al < sizeof(void*) || (al & (al - 1))) return EINVAL;
    void* p = g_eng->sim_alloc(n, al < 16 ? 16 : al, "posix_memalign");
    if (!p && !(n == 0)) return ENOMEM;
    *out = p; return 0;
}
void* __wrap_aligned_alloc(std::size_t al, std::size_t n) {
    if (!tl_ctx) return __real_aligned_alloc(al, n);
    if (al == 0 || (al & (al - 1))) { errno = EINVAL; return nullptr; }
    return g_eng->sim_alloc(n, al < 16 ? 16 : al, "aligned_alloc");
}
// sanitizer hooks (sanitised configurations only): a report while an AVEL operation is in flight
// is attributed to that operation; elsewhere it is a harness problem and left to abort.
void __ubsan_on_report(void) {
    if (!tl_ctx) return;
    const char *kind = "?", *msg = "?", *file = "?"; unsigned line = 0, col = 0; char* addr = nullptr;
    if (__ubsan_get_current_report_data) __ubsan_get_current_report_data(&kind, &msg, &file, &line, &col, &addr);
    const char* base = std::strrchr(file, '/'); base = base ? base + 1 : file;
    char d[300]; std::snprintf(d, sizeof d, "UBSan %s at %s:%u: %s", kind, base, line, msg);
    tl_ctx->san_reports.push_back(d);
}
void __asan_on_error(void) { if (tl_ctx) tl_ctx->san_reports.push_back("AddressSanitizer report during the operation (see stderr)"); }
const char* __asan_default_options() { return "detect_leaks=0:allow_user_segv_handler=1:handle_segv=0:handle_sigbus=0:halt_on_error=0:exitcode=77:detect_stack_use_after_return=0"; }
const char* __ubsan_default_options() { return "print_stacktrace=0:halt_on_error=0"; }
}

int main(int argc, char** argv) { HeapEngine e; return worker_main(e, argc, argv); }

// Per-configuration TU: REAL avel::Aligned_allocator.  The AVEL header is the FIRST include so
// that a header that is not self-contained in this configuration fails the build.
#include <avel/Aligned_allocator.hpp>

#include <vector>
#include <list>
#include <memory>
#include <cstring>
#include <type_traits>
#include "heap_iface.hpp"

namespace {

// Two element families: TA == S (alignof == sizeof, like the AVEL vector types) and TA < S (alignof < sizeof, like float[16] or a
// struct of three doubles - the second family came with the independently seeded change c18n; sizes 3, 12 and 24 are not powers of two)
template<unsigned S, unsigned TA = S> struct alignas(TA) P { unsigned char b[S]; };
static_assert(sizeof(P<1>) == 1 && sizeof(P<16>) == 16 && sizeof(P<64>) == 64 && alignof(P<64>) == 64, "pod layout");
static_assert(sizeof(P<64, 4>) == 64 && alignof(P<64, 4>) == 4 && sizeof(P<12, 4>) == 12 && sizeof(P<24, 8>) == 24 && sizeof(P<3, 1>) == 3, "pod layout");

template<unsigned S, unsigned TA> P<S, TA> mk(const unsigned char* e) { P<S, TA> x; std::memcpy(x.b, e, S); return x; }

template<unsigned S, unsigned A, unsigned TA = S> struct R {
    using T = P<S, TA>;
    using Al = avel::Aligned_allocator<T, A>;
    // an allocator for a different element type with the same alignment; rebinding it to T must give Al
    using Other = avel::Aligned_allocator<typename std::conditional<TA == S, P<(S == 1 ? 1 : S / 2)>, P<TA, TA>>::type, A>;
    using Rebound = typename Other::template rebind<T>::other;
    // (for the first family the identity is also asserted at compile time; for the second one it is left to the run-time oracles:
    //  allocate_rebound and the vector's storage must be aligned to A)
    static_assert(TA != S || std::is_same<Rebound, Al>::value, "rebind keeps the alignment");
    static_assert(Al::alignment == A, "alignment constant");
    using Vec = std::vector<T, Al>;
    using Lst = std::list<T, Al>;

    static void* allocate(std::size_t n) { Al a; return a.allocate(n); }
    static void* allocate_hint(std::size_t n, const void* h) { Al a; return a.allocate(n, h); }
    static void* allocate_rebound(std::size_t n) { Other o; Rebound a; (void)o; return a.allocate(n); }
    static void deallocate(void* p, std::size_t n) { Al a; a.deallocate(static_cast<T*>(p), n); }
    static bool misc() {
        Al a, b(a), c(std::move(b)); Al d; d = a; d = std::move(c);
        bool ok = (a == d) && !(a != d);
        Al e = a.select_on_container_copy_construction(); ok = ok && (e == a);
        ok = ok && a.max_size() >= (std::size_t(1) << 40);
        ok = ok && std::allocator_traits<Al>::is_always_equal::value;
        return ok;
    }
    static void* vnew() { return new Vec(); }
    static void vdel(void* h) { delete static_cast<Vec*>(h); }
    static void vpush(void* h, const unsigned char* e) { static_cast<Vec*>(h)->push_back(mk<S, TA>(e)); }
    static void vresize(void* h, std::size_t n, const unsigned char* e) { static_cast<Vec*>(h)->resize(n, mk<S, TA>(e)); }
    static void vreserve(void* h, std::size_t n) { static_cast<Vec*>(h)->reserve(n); }
    static void vshrink(void* h) { static_cast<Vec*>(h)->shrink_to_fit(); }
    static void* vcopy(void* h) { return new Vec(*static_cast<Vec*>(h)); }
    static void* vmove(void* h) { return new Vec(std::move(*static_cast<Vec*>(h))); }
    static void vswap(void* a, void* b) { static_cast<Vec*>(a)->swap(*static_cast<Vec*>(b)); }
    static void vassign(void* d, void* s) { *static_cast<Vec*>(d) = *static_cast<Vec*>(s); }
    static void vclear(void* h) { static_cast<Vec*>(h)->clear(); }
    static std::size_t vsize(void* h) { return static_cast<Vec*>(h)->size(); }
    static std::size_t vcap(void* h) { return static_cast<Vec*>(h)->capacity(); }
    static const void* vdata(void* h) { return static_cast<Vec*>(h)->data(); }
};

template<unsigned S, unsigned A, unsigned TA = S> struct L {
    using T = P<S, TA>;
    using Lst = std::list<T, avel::Aligned_allocator<T, A>>;
    static void* lnew() { return new Lst(); }
    static void ldel(void* h) { delete static_cast<Lst*>(h); }
    static void lpush_back(void* h, const unsigned char* e) { static_cast<Lst*>(h)->push_back(mk<S, TA>(e)); }
    static void lpush_front(void* h, const unsigned char* e) { static_cast<Lst*>(h)->push_front(mk<S, TA>(e)); }
    static void lpop_back(void* h) { static_cast<Lst*>(h)->pop_back(); }
    static void lpop_front(void* h) { static_cast<Lst*>(h)->pop_front(); }
    static std::size_t lsize(void* h) { return static_cast<Lst*>(h)->size(); }
    static void lget(void* h, std::size_t i, unsigned char* out) { auto it = static_cast<Lst*>(h)->begin(); std::advance(it, (long)i); std::memcpy(out, it->b, S); }
};

#define VEC_PART(S, A, TA) S, A, TA, &R<S, A, TA>::allocate, &R<S, A, TA>::allocate_hint, &R<S, A, TA>::allocate_rebound, &R<S, A, TA>::deallocate, &R<S, A, TA>::misc, \
    &R<S, A, TA>::vnew, &R<S, A, TA>::vdel, &R<S, A, TA>::vpush, &R<S, A, TA>::vresize, &R<S, A, TA>::vreserve, &R<S, A, TA>::vshrink, &R<S, A, TA>::vcopy, &R<S, A, TA>::vmove, \
    &R<S, A, TA>::vswap, &R<S, A, TA>::vassign, &R<S, A, TA>::vclear, &R<S, A, TA>::vsize, &R<S, A, TA>::vcap, &R<S, A, TA>::vdata
#define Q_NOLIST(S, A, TA) {VEC_PART(S, A, TA), nullptr, nullptr, nullptr, nullptr, nullptr, nullptr, nullptr, nullptr},
#define Q_LIST(S, A, TA) {VEC_PART(S, A, TA), &L<S, A, TA>::lnew, &L<S, A, TA>::ldel, &L<S, A, TA>::lpush_back, &L<S, A, TA>::lpush_front, &L<S, A, TA>::lpop_back, &L<S, A, TA>::lpop_front, &L<S, A, TA>::lsize, &L<S, A, TA>::lget},
#define E_NOLIST(S, A) Q_NOLIST(S, A, S)
#define E_LIST(S, A) Q_LIST(S, A, S)
// list nodes hold two pointers: alignof(node) == max(8, S); the class static_asserts A >= alignof(T)
#define FROM16(S) E_LIST(S, 16) E_LIST(S, 32) E_LIST(S, 64) E_LIST(S, 128) E_LIST(S, 256) E_LIST(S, 512) E_LIST(S, 1024) E_LIST(S, 2048) E_LIST(S, 4096)

#ifndef HEAP_PART
#define HEAP_PART 0
#endif
// the registry is split over several translation units (HEAP_PART) only to parallelise compilation
const HOps table[] = {
#if HEAP_PART == 0
    E_NOLIST(1, 1) E_NOLIST(1, 2) E_NOLIST(1, 4) E_LIST(1, 8) FROM16(1)
#elif HEAP_PART == 1
    E_NOLIST(2, 2) E_NOLIST(2, 4) E_LIST(2, 8) FROM16(2)
#elif HEAP_PART == 2
    E_NOLIST(4, 4) E_LIST(4, 8) FROM16(4)
#elif HEAP_PART == 3
    E_LIST(8, 8) FROM16(8)
#elif HEAP_PART == 4
    FROM16(16)
#elif HEAP_PART == 5
    E_LIST(64, 64) E_LIST(64, 128) E_LIST(64, 256) E_LIST(64, 512) E_LIST(64, 1024) E_LIST(64, 2048) E_LIST(64, 4096)
#elif HEAP_PART == 6
    // alignof(T) < sizeof(T): A may be smaller than the element, and n * sizeof(T) is rarely a multiple of A
    Q_NOLIST(64, 4, 4) Q_LIST(64, 8, 4) Q_LIST(64, 16, 4) Q_LIST(64, 32, 4) Q_LIST(64, 64, 4) Q_LIST(64, 128, 4) Q_LIST(64, 4096, 4)
    Q_LIST(64, 16, 16) Q_LIST(64, 32, 16) Q_LIST(64, 256, 16)
#else
    Q_NOLIST(12, 4, 4) Q_LIST(12, 8, 4) Q_LIST(12, 16, 4) Q_LIST(12, 32, 4) Q_LIST(12, 64, 4) Q_LIST(12, 1024, 4)
    Q_LIST(24, 8, 8) Q_LIST(24, 16, 8) Q_LIST(24, 32, 8) Q_LIST(24, 128, 8)
    Q_NOLIST(16, 1, 1) Q_NOLIST(16, 2, 1) Q_LIST(16, 8, 1) Q_LIST(16, 32, 1)
    Q_NOLIST(3, 1, 1) Q_LIST(3, 8, 1) Q_LIST(3, 32, 1)
#endif
};

} // namespace

#define CAT2(a, b) a##b
#define CAT(a, b) CAT2(a, b)
extern "C" const HOps* CAT(heap_registry_part, HEAP_PART)(std::size_t* n) { *n = sizeof table / sizeof table[0]; return table; }
#if HEAP_PART == 0
const char* heap_impl_name() {
#if defined(AVEL_SSE)
    return "sse";
#elif 201703L <= __cplusplus
    return "cxx17";
#else
    return "cxx11";
#endif
}
#endif

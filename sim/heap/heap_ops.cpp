// Per-configuration TU: REAL avel::Aligned_allocator.  The AVEL header is the FIRST include so
// that a header that is not self-contained in this configuration fails the build.
#include <avel/Aligned_allocator.hpp>

#include <vector>
#include <list>
#include <memory>
#include <cstring>
#include <type_traits>
#include "heap_iface.hpp"

namespace {

template<unsigned S> struct alignas(S) P { unsigned char b[S]; };
static_assert(sizeof(P<1>) == 1 && sizeof(P<16>) == 16 && sizeof(P<64>) == 64 && alignof(P<64>) == 64, "pod layout");

template<unsigned S> P<S> mk(const unsigned char* e) { P<S> x; std::memcpy(x.b, e, S); return x; }

template<unsigned S, unsigned A> struct R {
    using T = P<S>;
    using Al = avel::Aligned_allocator<T, A>;
    // an allocator for a different element type with the same alignment; rebinding it to T must give Al
    using Other = avel::Aligned_allocator<P<(S == 1 ? 1 : S / 2)>, A>;
    using Rebound = typename Other::template rebind<T>::other;
    static_assert(std::is_same<Rebound, Al>::value, "rebind keeps the alignment");
    static_assert(Al::alignment == A, "alignment constant");
    using Vec = std::vector<T, Al>;
    using Lst = std::list<T, Al>;

    static void* allocate(std::size_t n) { Al a; return a.allocate(n); }
    static void* allocate_hint(std::size_t n, const void* h) { Al a; return a.allocate(n, h); }
    static void* allocate_rebound(std::size_t n) { Other o; Rebound a; (void)o; return a.allocate(n); }
    static void deallocate(void* p, std::size_t n) { Al a; a.deallocate(static_cast<T*>(p), n); }
    static bool misc() {
        Al a, b(a), c(std::move(b)); Al d; d = a; d = std::move(c);
        bool ok = (a == d) && !(a != d);
        Al e = a.select_on_container_copy_construction(); ok = ok && (e == a);
        ok = ok && a.max_size() >= (std::size_t(1) << 40);
        ok = ok && std::allocator_traits<Al>::is_always_equal::value;
        return ok;
    }
    static void* vnew() { return new Vec(); }
    static void vdel(void* h) { delete static_cast<Vec*>(h); }
    static void vpush(void* h, const unsigned char* e) { static_cast<Vec*>(h)->push_back(mk<S>(e)); }
    static void vresize(void* h, std::size_t n, const unsigned char* e) { static_cast<Vec*>(h)->resize(n, mk<S>(e)); }
    static void vreserve(void* h, std::size_t n) { static_cast<Vec*>(h)->reserve(n); }
    static void vshrink(void* h) { static_cast<Vec*>(h)->shrink_to_fit(); }
    static void* vcopy(void* h) { return new Vec(*static_cast<Vec*>(h)); }
    static void* vmove(void* h) { return new Vec(std::move(*static_cast<Vec*>(h))); }
    static void vswap(void* a, void* b) { static_cast<Vec*>(a)->swap(*static_cast<Vec*>(b)); }
    static void vassign(void* d, void* s) { *static_cast<Vec*>(d) = *static_cast<Vec*>(s); }
    static void vclear(void* h) { static_cast<Vec*>(h)->clear(); }
    static std::size_t vsize(void* h) { return static_cast<Vec*>(h)->size(); }
    static std::size_t vcap(void* h) { return static_cast<Vec*>(h)->capacity(); }
    static const void* vdata(void* h) { return static_cast<Vec*>(h)->data(); }
};

template<unsigned S, unsigned A> struct L {
    using T = P<S>;
    using Lst = std::list<T, avel::Aligned_allocator<T, A>>;
    static void* lnew() { return new Lst(); }
    static void ldel(void* h) { delete static_cast<Lst*>(h); }
    static void lpush_back(void* h, const unsigned char* e) { static_cast<Lst*>(h)->push_back(mk<S>(e)); }
    static void lpush_front(void* h, const unsigned char* e) { static_cast<Lst*>(h)->push_front(mk<S>(e)); }
    static void lpop_back(void* h) { static_cast<Lst*>(h)->pop_back(); }
    static void lpop_front(void* h) { static_cast<Lst*>(h)->pop_front(); }
    static std::size_t lsize(void* h) { return static_cast<Lst*>(h)->size(); }
    static void lget(void* h, std::size_t i, unsigned char* out) { auto it = static_cast<Lst*>(h)->begin(); std::advance(it, (long)i); std::memcpy(out, it->b, S); }
};

#define VEC_PART(S, A) S, A, &R<S, A>::allocate, &R<S, A>::allocate_hint, &R<S, A>::allocate_rebound, &R<S, A>::deallocate, &R<S, A>::misc, \
    &R<S, A>::vnew, &R<S, A>::vdel, &R<S, A>::vpush, &R<S, A>::vresize, &R<S, A>::vreserve, &R<S, A>::vshrink, &R<S, A>::vcopy, &R<S, A>::vmove, \
    &R<S, A>::vswap, &R<S, A>::vassign, &R<S, A>::vclear, &R<S, A>::vsize, &R<S, A>::vcap, &R<S, A>::vdata
#define E_NOLIST(S, A) {VEC_PART(S, A), nullptr, nullptr, nullptr, nullptr, nullptr, nullptr, nullptr, nullptr},
#define E_LIST(S, A) {VEC_PART(S, A), &L<S, A>::lnew, &L<S, A>::ldel, &L<S, A>::lpush_back, &L<S, A>::lpush_front, &L<S, A>::lpop_back, &L<S, A>::lpop_front, &L<S, A>::lsize, &L<S, A>::lget},
// list nodes hold two pointers: alignof(node) == max(8, S); the class static_asserts A >= alignof(T)
#define FROM16(S) E_LIST(S, 16) E_LIST(S, 32) E_LIST(S, 64) E_LIST(S, 128) E_LIST(S, 256) E_LIST(S, 512) E_LIST(S, 1024) E_LIST(S, 2048) E_LIST(S, 4096)

#ifndef HEAP_PART
#define HEAP_PART 0
#endif
// the registry is split over several translation units (HEAP_PART) only to parallelise compilation
const HOps table[] = {
#if HEAP_PART == 0
    E_NOLIST(1, 1) E_NOLIST(1, 2) E_NOLIST(1, 4) E_LIST(1, 8) FROM16(1)
#elif HEAP_PART == 1
    E_NOLIST(2, 2) E_NOLIST(2, 4) E_LIST(2, 8) FROM16(2)
#elif HEAP_PART == 2
    E_NOLIST(4, 4) E_LIST(4, 8) FROM16(4)
#elif HEAP_PART == 3
    E_LIST(8, 8) FROM16(8)
#elif HEAP_PART == 4
    FROM16(16)
#else
    E_LIST(64, 64) E_LIST(64, 128) E_LIST(64, 256) E_LIST(64, 512) E_LIST(64, 1024) E_LIST(64, 2048) E_LIST(64, 4096)
#endif
};

} // namespace

#define CAT2(a, b) a##b
#define CAT(a, b) CAT2(a, b)
extern "C" const HOps* CAT(heap_registry_part, HEAP_PART)(std::size_t* n) { *n = sizeof table / sizeof table[0]; return table; }
#if HEAP_PART == 0
const char* heap_impl_name() {
#if defined(AVEL_SSE)
    return "sse";
#elif 201703L <= __cplusplus
    return "cxx17";
#else
    return "cxx11";
#endif
}
#endif

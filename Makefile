# /verif/Makefile — setup builds the configuration-independent harness objects only;
# every check rebuilds the AVEL-facing translation units from /repo's working tree.
.PHONY: setup clean
setup:
	python3 bin/setup.py
clean:
	rm -rf build

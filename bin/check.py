#!/usr/bin/env python3
"""Driver: build -> workers -> determinism gate -> violation gate -> shrink -> replay file
-> known findings -> evidence -> exit code.

exit 0  property held on everything explored (KNOWN-FINDING lines allowed)
exit 1  VIOLATION property=<id> replay=<path>
exit 2  harness problem (nondeterminism, dead probe, worker crash, reference self-check) --
        never reported as a violation
"""
import argparse, collections, concurrent.futures as cf, fnmatch, hashlib, json, os, shutil, subprocess, sys, tempfile, time

HERE = os.path.dirname(os.path.abspath(__file__))
VERIF = os.path.dirname(HERE)
sys.path.insert(0, HERE)
import configs as C  # noqa: E402

MAX_MINIMISED = 12
NCPU = int(os.environ.get('VERIF_JOBS', str(os.cpu_count() or 4)))
BUILD = os.path.join(VERIF, 'build')

ENGINE_OF = {'C08': 'mem', 'C09': 'mem', 'C20': 'mem', 'C10': 'fenv', 'C11': 'fenv', 'C18': 'heap'}

# ---------------------------------------------------------------- engine descriptions
ENGINES = {
    'fenv': {
        'dir': 'sim/fenv',
        'common': [  # (source, object, flags) built once, no AVEL, no -m flags
            ('fenv_main.cpp', 'fenv_main.o', ['-std=c++17', '-O1', '-frounding-math']),
            ('fenv_ref.cpp', 'fenv_ref.o', ['-std=c++17', '-O1', '-fno-builtin', '-frounding-math', '-ffp-contract=off']),
        ],
        'avel_tus': [('fenv_ops.cpp', ['-frounding-math'])] +   # per configuration, AVEL header first
                    [('fenv_api.cpp', ['-frounding-math', '-DAPI_PART=%d' % k], 'fenv_api_%d.o' % k) for k in range(10)],
        'link': ['-lm'],
        'configs': C.fenv_configs,
        'seeded_runs': {'quick': 400000, 'thorough': 40000000},
        'gate_n': {'quick': 200, 'thorough': 5000},
        'required_probes': {
            'C10': ['env_checked_calls', 'call_under_directed_mode', 'lane_rotation_checked'],
            'C11': ['env_checked_calls', 'call_under_directed_mode', 'call_under_ftz_daz', 'nearbyint_tie_under_directed_mode', 'env_checked_api_calls'],
        },
        'required_faults': ['env_jump_rc_down', 'env_jump_rc_up', 'env_jump_rc_zero', 'env_jump_rc_nearest'],
    },
    'heap': {
        'dir': 'sim/heap',
        'common': [('heap_main.cpp', 'heap_main.o', ['-std=c++17', '-O1', '-pthread'])],
        'avel_tus': [('heap_ops.cpp', ['-DHEAP_PART=%d' % k, '-fno-builtin-malloc', '-fno-builtin-free', '-fno-builtin-calloc', '-fno-builtin-realloc',
                                       '-fno-builtin-aligned_alloc', '-fno-builtin-posix_memalign'], 'heap_ops_%d.o' % k) for k in range(8)],
        'link': ['-pthread', '-Wl,--wrap=malloc,--wrap=free,--wrap=calloc,--wrap=realloc,--wrap=posix_memalign,--wrap=aligned_alloc'],
        'configs': C.heap_configs,
        'seeded_runs': {'quick': 200000, 'thorough': 5000000},
        'gate_n': {'quick': 200, 'thorough': 5000},
        'required_probes': {'C18': []},
        'required_faults': [],
    },
    'mem': {
        'dir': 'sim/mem',
        'common': [('mem_main.cpp', 'mem_main.o', ['-std=c++17', '-O1', '-pthread']), ('mem_poison.S', 'mem_poison.o', [])],
        'avel_tus': [('mem_ops.cpp', ['-DMEM_PART=%d' % k], 'mem_ops_%d.o' % k) for k in range(11)],
        'link': ['-Wl,-z,now', '-pthread'],
        'configs': C.vector_configs,
        'configs_by_prop': {'C20': C.prefetch_configs},
        'seeded_runs': {'quick': 100000, 'thorough': 10000000},
        'gate_n': {'quick': 200, 'thorough': 5000},
        'required_probes': {'C08': ['n0_calls', 'vector_misaligned_pointer', 'gather_scatter_with_wild_inactive_indices', 'scatter_duplicate_active_indices'],
                            'C09': ['partial_store_flush_against_inaccessible_page', 'partial_load_flush_against_inaccessible_page', 'range_starts_right_after_inaccessible_page',
                                    'n0_calls', 'gather_scatter_with_wild_inactive_indices', 'exhaustive_k_sweeps'],
                            'C20': ['prefetch_range_touches_inaccessible_memory', 'prefetch_null_pointer', 'prefetch_n0', 'prefetch_stream_continues_into_inaccessible_page']},
        'required_faults_by_prop': {'C08': ['stale_stack_and_register_poison', 'page_N_adjacent'], 'C09': ['page_N_adjacent', 'page_R_adjacent', 'page_H_adjacent', 'watch_windows_armed', 'neighbour_write_at_instruction_k', 'stale_stack_and_register_poison'],
                                    'C20': ['neighbour_write_at_instruction_k']},
        'required_faults': [],
    },
}


def sh(cmd, **kw):
    return subprocess.run(cmd, stdout=subprocess.PIPE, stderr=subprocess.STDOUT, text=True, **kw)


def repo_rev(repo):
    r = sh(['git', '-C', repo, 'describe', '--always', '--dirty'])
    return r.stdout.strip() if r.returncode == 0 else 'unknown'


# ---------------------------------------------------------------- build
def build_common(engine):
    e = ENGINES[engine]
    outdir = os.path.join(BUILD, engine, 'common'); os.makedirs(outdir, exist_ok=True)
    srcdir = os.path.join(VERIF, e['dir']); coredir = os.path.join(VERIF, 'sim', 'core')
    newest = max(os.path.getmtime(os.path.join(d, f)) for d in (srcdir, coredir) for f in os.listdir(d))
    objs = []
    for src, obj, flags in e['common']:
        o = os.path.join(outdir, obj); objs.append(o)
        if os.path.exists(o) and os.path.getmtime(o) >= newest:
            continue
        r = sh(['g++'] + flags + ['-w', '-c', os.path.join(srcdir, src), '-o', o])
        if r.returncode != 0:
            print('HARNESS BUILD FAILURE (%s):\n%s' % (src, r.stdout), file=sys.stderr); sys.exit(2)
    return objs


def build_config(engine, cfg, repo, common_objs):
    """Compile the AVEL-facing TU(s) of `engine` for cfg from repo's current working tree.
    Always recompiles.  Returns (binary or None, command, log)."""
    e = ENGINES[engine]
    outdir = os.path.join(BUILD, engine, cfg['id']); shutil.rmtree(outdir, ignore_errors=True); os.makedirs(outdir)
    srcdir = os.path.join(VERIF, e['dir'])
    # sanitised configurations: UBSan in TRAP mode only.  ASan was tried and withdrawn: in recover mode its report path
    # dies with 'nested bug' once a fault handler has longjmp'ed out of a report, and SimHeap's guard pages + canaries already
    # see every out-of-block write byte-exactly (DESIGN 2.5).
    san = ['-fsanitize=undefined', '-fsanitize-trap=undefined', '-fno-omit-frame-pointer', '-g'] if cfg['san'] else []
    objs, cmds, log = [], [], ''
    jobs = []
    for tu in e['avel_tus']:
        src, flags = tu[0], tu[1]
        o = os.path.join(outdir, tu[2] if len(tu) > 2 else src.replace('.cpp', '.o'))
        cmd = [cfg['cxx'], '-std=' + cfg['std'], cfg['opt'], '-w', '-I' + os.path.join(repo, 'include'), '-I' + srcdir] + \
              ['-D' + d for d in cfg['defs']] + cfg['flags'] + flags + san + ['-c', os.path.join(srcdir, src), '-o', o]
        cmds.append(' '.join(cmd)); jobs.append((cmd, o))
    with cf.ThreadPoolExecutor(max_workers=max(1, len(jobs))) as ex:
        results = list(ex.map(lambda j: sh(j[0]), jobs))
    for (cmd, o), r in zip(jobs, results):
        log += r.stdout
        if r.returncode != 0:
            return None, cmds, log
        objs.append(o)
    binp = os.path.join(outdir, engine + '_sim')
    # sanitised builds need the harness objects linked by the same compiler driver
    cmd = [cfg['cxx'] if cfg['san'] else 'g++'] + objs + common_objs + san + e['link'] + ['-o', binp]
    cmds.append(' '.join(cmd))
    r = sh(cmd)
    log += r.stdout
    if r.returncode != 0:
        return None, cmds, log
    return binp, cmds, log


# ---------------------------------------------------------------- running workers
def parse_lines(text):
    recs = collections.defaultdict(list)
    for line in text.splitlines():
        if len(line) < 2 or line[1] != ' ':
            recs['?'].append(line); continue
        tag, rest = line[0], line[2:]
        if tag in 'VESZ':
            try:
                recs[tag].append(json.loads(rest))
            except Exception:
                recs['?'].append(line)
        elif tag == 'H':
            a, b = rest.split(); recs['H'].append((int(a), b))
        else:
            recs[tag].append(rest)
    return recs


EXHAUSTIVE_CFGS = ('gxx-*-none-*', 'gxx-*-SSE2-*', 'gxx-*-SSE4_2-*', 'gxx-*-AVX2-*', 'gxx-*-AVX512F-*', 'gxx-*-full-*', 'clang-*-AVX2-*', 'clang-*-SSE3-*')


def run_worker(binp, args, timeout, extra_env=None):
    env = dict(os.environ); env.pop('VERIF_EXHAUSTIVE', None)
    if extra_env:
        env.update(extra_env)
    env['ASAN_OPTIONS'] = env.get('ASAN_OPTIONS', 'detect_leaks=0:allow_user_segv_handler=1:exitcode=77:handle_segv=0:handle_sigbus=0:handle_sigfpe=0:halt_on_error=0:detect_stack_use_after_return=0')
    env['UBSAN_OPTIONS'] = env.get('UBSAN_OPTIONS', 'halt_on_error=0:print_stacktrace=0')
    try:
        p = subprocess.run([binp] + args, stdout=subprocess.PIPE, stderr=subprocess.PIPE, text=True, timeout=timeout, env=env, errors='replace')
        return p.returncode, p.stdout, p.stderr
    except subprocess.TimeoutExpired as ex:
        return -999, (ex.stdout or b'').decode(errors='replace') if isinstance(ex.stdout, bytes) else (ex.stdout or ''), 'TIMEOUT'


def exec_plan(binp, prop, tier, lines, timeout=120):
    """Execute one plan (list of text lines) in a fresh process; returns dict."""
    with tempfile.NamedTemporaryFile('w', suffix='.plan', delete=False, dir=os.path.join(BUILD, 'tmp')) as f:
        f.write('\n'.join(lines) + '\n'); path = f.name
    try:
        rc, out, err = run_worker(binp, ['--exec', path, '--prop', prop, '--tier', tier], timeout)
    finally:
        os.unlink(path)
    recs = parse_lines(out)
    res = {'rc': rc, 'log': recs.get('L', []), 'obs': recs.get('O', []), 'stderr': err[-4000:]}
    res['harness_error'] = recs['E'][0].get('error') if recs.get('E') else None
    z = recs['Z'][0] if recs.get('Z') else None
    res['log_hash'] = z['log_hash'] if z else None
    res['z'] = z
    v = recs['V'][0] if recs.get('V') else None
    res['violation'] = v
    if z is None and not res['harness_error']:
        res['harness_error'] = 'worker died rc=%s stderr=%s' % (rc, err[-500:])
    return res


def sigkey(v):
    return (v['prop'],) + tuple(v['sig'])


# ---------------------------------------------------------------- shrinking
def shrink(binp, prop, tier, plan_lines, target, engine, budget=400, vstep=None):
    """ddmin over steps, then per-step simplification; a candidate is accepted only if it
    reproduces the same signature class."""
    head, steps = plan_lines[0], list(plan_lines[1:])
    runs = [0]; t_start = time.time()

    def fails(st):
        if runs[0] >= budget or time.time() - t_start > (60 if 'hang' in target else 240):      # minimisation is time-boxed (a hanging call costs its full limit per replay)
            return False
        runs[0] += 1
        r = exec_plan(binp, prop, tier, [head] + st)
        return r['violation'] is not None and sigkey(r['violation']) == target

    # shortcut: most violations need only the violating step (plus, at most, the step before it)
    if vstep is not None and 0 <= vstep < len(steps) and len(steps) > 1:
        for cand in ([steps[vstep]], steps[max(0, vstep - 1):vstep + 1]):
            if len(cand) < len(steps) and fails(cand):
                steps = cand; break
    n = 2
    while len(steps) >= 2 and runs[0] < budget:
        chunk = max(1, len(steps) // n); reduced = False
        for i in range(0, len(steps), chunk):
            cand = steps[:i] + steps[i + chunk:]
            if cand and fails(cand):
                steps = cand; n = max(n - 1, 2); reduced = True; break
        if not reduced:
            if chunk == 1:
                break
            n = min(n * 2, len(steps))
    # per-step simplification
    simp = SIMPLIFIERS.get(engine, lambda s: [])
    changed = True
    while changed and runs[0] < budget:
        changed = False
        for i in range(len(steps)):
            for cand_step in simp(steps[i]):
                if cand_step == steps[i]:
                    continue
                cand = steps[:i] + [cand_step] + steps[i + 1:]
                if fails(cand):
                    steps = cand; changed = True; break
    return [head] + steps, runs[0]


def kv_parse(step):
    t = step.split(' '); return t[0], [x.split('=', 1) if '=' in x else [x, ''] for x in t[1:]]


def kv_text(op, kv):
    return ' '.join([op] + ['%s=%s' % (k, v) for k, v in kv])


def kv_set(step, key, val):
    op, kv = kv_parse(step)
    for p in kv:
        if p[0] == key:
            p[1] = str(val); return kv_text(op, kv)
    kv.append([key, str(val)]); return kv_text(op, kv)


def kv_get(step, key, default=None):
    for k, v in kv_parse(step)[1]:
        if k == key:
            return v
    return default


def simp_fenv(step):
    op, kv = kv_parse(step); out = []
    if op == 'setenv':
        for k in ('ftz', 'daz'):
            if kv_get(step, k) not in (None, '0'):
                out.append(kv_set(step, k, 0))
    if op == 'call':
        if kv_get(step, 'rot') not in (None, '0'):
            out.append(kv_set(step, 'rot', 0))
        for key in ('a', 'b'):
            v = kv_get(step, key)
            if v:
                lanes = v.split(',')
                # make all lanes equal to one of the lanes (simpler lane values)
                for l in lanes:
                    cand = ','.join([l] * len(lanes))
                    if cand != v:
                        out.append(kv_set(step, key, cand))
                        break
    return out


def simp_heap(step):
    op, kv = kv_parse(step); out = []
    for k, simple in (('fail', '0'), ('y', '0'), ('reuse', '0'), ('tail', 'slack'), ('task', '0'), ('how', '0'), ('z', 'uniq'), ('res', '0'), ('fill', '90')):
        v = kv_get(step, k)
        if v is not None and v != simple:
            out.append(kv_set(step, k, simple))
    for k in ('n', 'm'):
        n = kv_get(step, k)
        if n is not None and n.isdigit() and int(n) > 1:
            out.append(kv_set(step, k, int(n) // 2)); out.append(kv_set(step, k, int(n) - 1))
    return out


def simp_mem(step):
    op, kv = kv_parse(step); out = []
    for k, simple in (('fault', 'none'), ('poison', '0'), ('cls', '0'), ('pages', 'WWWWWWWW')):
        v = kv_get(step, k)
        if v is not None and v != simple:
            out.append(kv_set(step, k, simple))
    v = kv_get(step, 'pages')
    if v and v != 'WWWWWWWW':
        # keep one non-RW page at a time
        for i, ch in enumerate(v):
            if ch != 'W':
                cand = 'W' * i + ch + 'W' * (len(v) - i - 1)
                if cand != v:
                    out.append(kv_set(step, 'pages', cand))
    v = kv_get(step, 'form')
    if v in ('ct', 'act', 'art', 'def') and op in ('load', 'store', 'gather', 'scatter'):
        out.append(kv_set(step, 'form', 'rt'))
    if kv_get(step, 'k') == 'all':
        out.append(kv_set(step, 'k', '0'))
    return out


SIMPLIFIERS = {'fenv': simp_fenv, 'heap': simp_heap, 'mem': simp_mem}


# ---------------------------------------------------------------- known findings
def load_known():
    p = os.path.join(VERIF, 'known_findings.json')
    if not os.path.exists(p):
        return []
    return json.load(open(p)).get('findings', [])


def match_known(known, prop, cfg, v):
    """A finding matches when property equals and every signature pattern (fnmatch, positional)
    matches and every detail-predicate substring is found in the violation detail."""
    for k in known:
        if k.get('status') != 'open' or k.get('property') != prop:
            continue
        pat = k.get('signature', [])
        sig = list(v['sig'])
        if len(pat) > len(sig):
            continue
        if not all(fnmatch.fnmatchcase(sig[i], pat[i]) for i in range(len(pat))):
            continue
        if not all(s in v.get('detail', '') for s in k.get('detail_contains', [])):
            continue
        cfgpat = k.get('config', '*')
        if not fnmatch.fnmatchcase(cfg['id'], cfgpat):
            continue
        return k
    return None


# ---------------------------------------------------------------- main check
def main():
    ap = argparse.ArgumentParser()
    ap.add_argument('prop')
    ap.add_argument('--tier', default=os.environ.get('VERIF_TIER', 'quick'), choices=['quick', 'thorough'])
    ap.add_argument('--replay')
    ap.add_argument('--repo', default=os.environ.get('VERIF_REPO', '/repo'))
    ap.add_argument('--seed', type=int, default=int(os.environ.get('VERIF_SEED', '1')))
    ap.add_argument('--runs', type=int, default=None, help='override seeded runs per configuration')
    ap.add_argument('--configs', default=None, help='comma separated fnmatch patterns restricting configurations')
    ap.add_argument('--no-evidence', action='store_true')
    ap.add_argument('--keep-going', action='store_true')
    args = ap.parse_args()
    prop = args.prop
    if prop not in ENGINE_OF:
        print('property %s is not claimed by any engine (see MANIFEST not_applicable)' % prop); return 2
    engine = ENGINE_OF[prop]; E = ENGINES[engine]
    global BUILD
    if os.path.realpath(args.repo) != '/repo':
        # checks against a scratch copy (sensitivity runs) build elsewhere, so that they can run next to a check of /repo
        BUILD = os.path.join(VERIF, 'build', 'alt-' + hashlib.sha1(os.path.realpath(args.repo).encode()).hexdigest()[:10])
    os.makedirs(os.path.join(BUILD, 'tmp'), exist_ok=True)
    t0 = time.time()
    common = build_common(engine)

    if args.replay:
        return do_replay(args, engine, common)

    cfgs = E.get('configs_by_prop', {}).get(prop, E['configs'])(args.tier, args.seed)
    if args.configs:
        pats = args.configs.split(',')
        cfgs = [c for c in cfgs if any(fnmatch.fnmatchcase(c['id'], p) for p in pats)]
    rev = repo_rev(args.repo)
    print('[check] property=%s engine=%s tier=%s seed=%d repo=%s (%s) configs=%d' % (prop, engine, args.tier, args.seed, args.repo, rev, len(cfgs)))
    sys.stdout.flush()

    # ---- build all configurations in parallel
    built = {}
    with cf.ThreadPoolExecutor(max_workers=NCPU) as ex:
        futs = {ex.submit(build_config, engine, c, args.repo, common): c for c in cfgs}
        for f in cf.as_completed(futs):
            built[futs[f]['id']] = f.result()
    t_build = time.time() - t0
    print('[check] built %d configurations in %.1fs' % (len(cfgs), t_build)); sys.stdout.flush()

    known = load_known()
    violations_out, known_seen, harness_problems = [], [], []
    global_sigs = {}
    agg = {'runs': 0, 'sweep_runs': 0, 'steps': 0, 'violations_raw': 0, 'faults': collections.Counter(), 'probes': collections.Counter(),
           'obs': collections.Counter(), 'distinct': set(), 'distinct_all': 0, 'samples': [], 'configs': [], 'other_prop': collections.Counter(),
           'gate_pairs': 0, 'extra': {}}
    nruns = args.runs if args.runs is not None else E['seeded_runs'][args.tier]
    nruns_cfg = max(1, nruns // max(1, len(cfgs)))

    # a configuration that fails to build is a violation of the property it serves
    for c in cfgs:
        binp, cmds, log = built[c['id']]
        agg['configs'].append({'id': c['id'], 'commands': cmds, 'built': binp is not None})
        if binp is None:
            rp = write_replay(prop, c, None, {'prop': prop, 'sig': [prop, 'build_failure', c['id']], 'step': -1, 'detail': log[-3000:]}, [], rev, args, kind='build')
            v = {'prop': prop, 'sig': [prop, 'build_failure', 'cxx=' + c['cxx'], 'std=' + c['std'], 'mset=' + c['mset']], 'detail': log[-3000:]}
            k = match_known(known, prop, c, v)
            if k:
                known_seen.append((k, c['id']))
            else:
                violations_out.append((prop, rp, 'configuration %s does not build' % c['id']))

    # Phase A (two configurations at a time, so that stragglers of one overlap with the other): determinism-gate executions and
    # the main batch.  Phase B (serial, below): aggregation, violation gating, shrinking, classification.
    def phase_a(c):
        binp = built[c['id']][0]
        if binp is None:
            return None
        t_ = time.time()
        gate_n = E['gate_n'][args.tier] // max(1, len(cfgs)) + 20
        gargs = ['--gen', '--prop', prop, '--tier', args.tier, '--seed', str(args.seed), '--no-sweep', '--count', str(gate_n), '--hashes']
        with cf.ThreadPoolExecutor(max_workers=4) as ex:
            g = list(ex.map(lambda a: run_worker(binp, a, 600), [gargs] + [gargs + ['--start', str(s_), '--stride', '3'] for s_ in range(3)]))
        base = ['--gen', '--prop', prop, '--tier', args.tier, '--seed', str(args.seed), '--count', str(nruns_cfg), '--stride', str(NCPU), '--samples', '2']
        xenv = {'VERIF_EXHAUSTIVE': '1'} if (args.tier == 'thorough' and engine == 'fenv' and prop == 'C11' and any(fnmatch.fnmatchcase(c['id'], p_) for p_ in EXHAUSTIVE_CFGS)) else None
        with cf.ThreadPoolExecutor(max_workers=NCPU) as ex:
            res = list(ex.map(lambda s_: run_worker(binp, base + ['--start', str(s_)], 14400, xenv), range(NCPU)))
        print('[check] %s: batch finished in %.1fs' % (c['id'], time.time() - t_)); sys.stdout.flush()
        return {'ga': g[0], 'gb': g[1:], 'gate_n': gate_n, 'base': base, 'xenv': xenv, 'res': res, 'wall': time.time() - t_}

    with cf.ThreadPoolExecutor(max_workers=int(os.environ.get('VERIF_CFG_PAR', '2'))) as cex:
        phase = dict(zip([c['id'] for c in cfgs], cex.map(phase_a, cfgs)))

    for c in cfgs:
        binp, cmds, log = built[c['id']]
        if binp is None:
            continue
        tc = time.time()
        ph = phase[c['id']]; ga, gb, gate_n, base, xenv, res = ph['ga'], ph['gb'], ph['gate_n'], ph['base'], ph['xenv'], ph['res']
        dead = [g for g in [ga] + gb if not parse_lines(g[1]).get('Z')]
        if dead:
            harness_problems.append('gate worker of %s died (rc=%s): stdout tail %s stderr tail %s' % (c['id'], dead[0][0], dead[0][1][-300:], dead[0][2][-800:]))
            continue
        ha = dict(parse_lines(ga[1]).get('H', []))
        hb = {}
        for g in gb:
            hb.update(dict(parse_lines(g[1]).get('H', [])))
        gate_problem = None
        if ha != hb or len(ha) != gate_n:
            diff = [i for i in sorted(set(ha) | set(hb)) if ha.get(i) != hb.get(i)][:5]
            gate_problem = 'nondeterministic harness on %s: run indices %s differ between two executions with different worker partitions (%d vs %d hashes)' % (c['id'], diff, len(ha), len(hb))
            # Same partition twice: if THAT differs the harness itself is nondeterministic -> stop here.  If it is stable, runs depend on
            # the preceding runs of their worker (state kept across calls).  The batch continues; the problem is dropped only if a
            # confirmed violation of the property on this configuration explains it, otherwise it stands (exit 2).
            ga2 = run_worker(binp, ['--gen', '--prop', prop, '--tier', args.tier, '--seed', str(args.seed), '--no-sweep', '--count', str(gate_n), '--hashes'], 600)
            if dict(parse_lines(ga2[1]).get('H', [])) != ha:
                harness_problems.append(gate_problem + ' (and the same partition executed twice differs as well)')
                continue
        else:
            agg['gate_pairs'] += gate_n
        n_viol_before = len(violations_out); explained = [False]

        cfg_v = {}
        for widx, (rc, out, err) in enumerate(res):
            recs = parse_lines(out)
            if not recs.get('Z'):
                harness_problems.append('worker %d of %s died (rc=%s) without summary; stderr tail: %s; stdout tail: %s' % (widx, c['id'], rc, err[-1500:], out[-300:]))
                continue
            for e_ in recs.get('E', []):
                harness_problems.append('harness error on %s: %s' % (c['id'], json.dumps(e_)[:1500]))
            z = recs['Z'][0]
            agg['runs'] += z['runs']; agg['sweep_runs'] += z['sweep_runs']; agg['steps'] += z['steps']; agg['violations_raw'] += z['violations']
            agg['faults'].update(z['faults']); agg['probes'].update(z['probes']); agg['obs'].update(z.get('obs', {}))
            agg['distinct'].update((c['mset'], h) for h in z['distinct'])
            ex_ = z.get('extra', {})
            if isinstance(ex_, dict) and 'distinct_interleavings_this_worker' in ex_:
                agg['probes']['distinct_interleavings(sum over workers of distinct yield/switch sequences)'] += ex_['distinct_interleavings_this_worker']
            agg['extra'][c['id']] = ex_
            for s_ in recs.get('S', []):
                if len(agg['samples']) < 6:
                    agg['samples'].append({'config': c['id'], 'run': s_['run'], 'seed': s_['seed'], 'plan': s_['plan']})
            for k_, n_ in z['sigcount'].items():
                if not k_.startswith(prop + '|'):
                    agg['other_prop'][k_.split('|')[0]] += n_
            for v in recs.get('V', []):
                key = sigkey(v)
                if key not in cfg_v or v['run'] < cfg_v[key]['run']:
                    cfg_v[key] = v
        # ---- gate, shrink, classify the violations of THIS property
        mine = [v for k_, v in sorted(cfg_v.items(), key=lambda kv: kv[1]['run']) if v['prop'] == prop]
        for vi, v in enumerate(mine):
            k = match_known(known, prop, c, v)
            if k:
                known_seen.append((k, c['id'])); continue
            gkey = sigkey(v)
            if gkey in global_sigs:
                # same signature already confirmed and minimised on another configuration
                # (re-executed twice here as well, so that it may count as the explanation of a gate mismatch on this configuration)
                q1 = exec_plan(binp, prop, args.tier, v['plan'])
                if q1['violation'] is not None and sigkey(q1['violation']) == gkey:
                    explained[0] = True
                global_sigs[gkey]['also_on'].append(c['id']); continue
            if len(global_sigs) >= MAX_MINIMISED and not args.keep_going:
                rp = write_replay(prop, c, v['plan'], v, [], rev, args, minimised=False)
                violations_out.append((prop, rp, 'further distinct signature (not minimised): %s on %s: %s' % (v['sig'], c['id'], v['detail'][:200]))); continue
            r1 = exec_plan(binp, prop, args.tier, v['plan']); r2 = exec_plan(binp, prop, args.tier, v['plan'])
            ok = (r1['violation'] is not None and r2['violation'] is not None and r1['log_hash'] == r2['log_hash']
                  and sigkey(r1['violation']) == sigkey(v) == sigkey(r2['violation']))
            if not ok:
                # The single plan does not reproduce in a fresh process.  Before calling that a harness defect, check whether the
                # violation is a function of the worker's whole HISTORY (state the library itself keeps across calls, e.g. a
                # static or thread_local introduced by a change): re-execute that worker's run sequence up to this run, twice.
                hargs = base + ['--start', str(v['run'] % NCPU), '--until', str(v['run'])]
                hv = []
                for _ in range(2):
                    rc_, out_, err_ = run_worker(binp, hargs, 7200, xenv)
                    hv.append([x for x in parse_lines(out_).get('V', []) if x['run'] == v['run']])
                if hv[0] and hv[1] and sigkey(hv[0][0]) == sigkey(hv[1][0]) == sigkey(v) and hv[0][0]['log_hash'] == hv[1][0]['log_hash']:
                    gkey = sigkey(v)
                    if gkey in global_sigs:
                        global_sigs[gkey]['also_on'].append(c['id']); continue
                    rp = write_replay(prop, c, v['plan'], v, [], rev, args, kind='history', worker_args=hargs,
                                      note='the violating plan reproduces only after the preceding runs of the same worker process: the library keeps state across calls')
                    ent = {'also_on': []}; global_sigs[gkey] = ent
                    violations_out.append((prop, rp, '%s on %s (history-dependent: reproduces only after the worker\'s preceding runs): %s' % (v['sig'], c['id'], v['detail'][:300]), ent))
                    continue
                harness_problems.append('violation does not replay deterministically on %s: sig=%s run=%s hashes=%s/%s errs=%s/%s' % (
                    c['id'], v['sig'], v['run'], r1['log_hash'], r2['log_hash'], r1['harness_error'], r2['harness_error']))
                continue
            small, tries = shrink(binp, prop, args.tier, v['plan'], sigkey(v), engine, vstep=v.get('step'))
            rf = exec_plan(binp, prop, args.tier, small)
            vv = rf['violation'] or r1['violation']
            vv['detail'] = symbolise(binp, vv.get('detail'))
            # the minimised plan may match a known finding more precisely than the raw one
            k = match_known(known, prop, c, vv)
            if k:
                known_seen.append((k, c['id'])); continue
            rp = write_replay(prop, c, small, vv, rf['log'], rev, args, shrink_runs=tries, orig_steps=len(v['plan']) - 1)
            ent = {'also_on': []}; global_sigs[gkey] = ent
            violations_out.append((prop, rp, '%s on %s: %s' % (vv['sig'], c['id'], vv['detail'][:300]), ent))
        if gate_problem:
            if len(violations_out) > n_viol_before or explained[0]:
                print('[check] %s: runs depend on the preceding runs of their worker (cross-run state); explained by the confirmed violation(s) above' % c['id'])
            else:
                harness_problems.append(gate_problem)
        print('[check] %s: %.1fs, %d distinct violating signatures for %s' % (c['id'], ph['wall'] + time.time() - tc, len(mine), prop)); sys.stdout.flush()

    # ---- required probes (a vacuous batch is not a pass).  They guard a PASS: when confirmed, replayable violations are being
    # reported the batch may legitimately have been cut short (workers stop early after repeated hanging calls).
    for p_ in ([] if violations_out else E['required_probes'].get(prop, [])):
        if agg['probes'].get(p_, 0) == 0:
            harness_problems.append('required probe %s never fired' % p_)
    watch_inactive = [cid for cid, x in agg['extra'].items() if isinstance(x, dict) and x.get('watch_oracle_active') is False]
    for f_ in ([] if violations_out else E['required_faults'] + E.get('required_faults_by_prop', {}).get(prop, [])):
        if f_ == 'watch_windows_armed' and watch_inactive and len(watch_inactive) == len(agg['extra']):
            # data breakpoints unavailable or not trustworthy on this machine (calibration): the watch oracle is demoted to
            # an observation by the engine and reported as inactive in the evidence - not a vacuous pass of the other oracles
            continue
        if agg['faults'].get(f_, 0) == 0:
            harness_problems.append('required fault kind %s never fired' % f_)

    wall = time.time() - t0
    seen_ids = []
    for k, cid in known_seen:
        if k['id'] not in seen_ids:
            seen_ids.append(k['id'])
            print('KNOWN-FINDING: property=%s %s' % (prop, k['text']))
    for vo in violations_out:
        p_, rp, text = vo[0], vo[1], vo[2]
        print('VIOLATION property=%s replay=%s' % (p_, rp))
        print('  ' + text)
        if len(vo) > 3 and vo[3]['also_on']:
            print('  same signature also on: ' + ', '.join(vo[3]['also_on']))
    for h in harness_problems:
        print('HARNESS-PROBLEM: ' + h)

    if not args.no_evidence:
        write_evidence(prop, engine, args, agg, wall, len(violations_out), seen_ids, harness_problems, rev)
    print('[check] %s %s: runs=%d steps=%d distinct_nontrivial=%d violations=%d known=%d wall=%.1fs' % (
        prop, args.tier, agg['runs'], agg['steps'], len(agg['distinct']), len(violations_out), len(seen_ids), wall))
    if harness_problems:
        return 2
    return 1 if violations_out else 0


def symbolise(binp, detail):
    import re
    m = re.search(r'text offset (0x[0-9a-f]+)', detail or '')
    if not m or not binp:
        return detail
    r = sh(['llvm-symbolizer-14', '--obj=' + binp, '-f', '-i', '-p', m.group(1)])
    loc = ' | '.join(l.strip() for l in r.stdout.splitlines() if l.strip())[:600]
    return detail + ' [' + loc + ']'


def write_replay(prop, cfg, plan, v, log, rev, args, kind='plan', **extra):
    os.makedirs(os.path.join(VERIF, 'replay'), exist_ok=True)
    body = {'property': prop, 'engine': ENGINE_OF[prop], 'kind': kind, 'tier': args.tier, 'batch_seed': args.seed,
            'config': cfg, 'repo_rev': rev, 'plan': plan,
            'expect': {'prop': v['prop'], 'signature': v['sig'], 'step': v.get('step'), 'detail': v.get('detail')},
            'violating_log': log[-12:] if log else []}
    body.update(extra)
    h = hashlib.sha1(json.dumps([cfg['id'], plan, v['sig']], sort_keys=True).encode()).hexdigest()[:10]
    path = os.path.join(VERIF, 'replay', '%s-%s-%s.json' % (prop, cfg['id'], h))
    json.dump(body, open(path, 'w'), indent=1)
    return path


def do_replay(args, engine, common):
    body = json.load(open(args.replay))
    cfg = body['config']; prop = body['property']
    binp, cmds, log = build_config(engine, cfg, args.repo, common)
    if body.get('kind') == 'build':
        if binp is None:
            print('VIOLATION property=%s replay=%s' % (prop, args.replay)); print('  configuration still does not build'); return 1
        print('[replay] configuration builds now; violation not reproduced'); return 0
    if binp is None:
        print('HARNESS-PROBLEM: configuration does not build:\n' + log[-2000:]); return 2
    if body.get('kind') == 'history':
        rc_, out_, err_ = run_worker(binp, body['worker_args'], 7200)
        hv = [x for x in parse_lines(out_).get('V', []) if x['sig'] == body['expect']['signature']]
        if hv:
            print('VIOLATION property=%s replay=%s' % (prop, args.replay)); print('  reproduced after the recorded history: %s %s' % (hv[-1]['sig'], hv[-1]['detail'])); return 1
        print('[replay] history executed, violation not reproduced'); return 0
    r1 = exec_plan(binp, prop, body.get('tier', 'quick'), body['plan'])
    r2 = exec_plan(binp, prop, body.get('tier', 'quick'), body['plan'])
    for l in r1['log']:
        print('  log: ' + l)
    if r1['harness_error']:
        print('HARNESS-PROBLEM: ' + r1['harness_error']); return 2
    if r1['log_hash'] != r2['log_hash']:
        print('HARNESS-PROBLEM: replay is not deterministic (%s vs %s)' % (r1['log_hash'], r2['log_hash'])); return 2
    v = r1['violation']
    if v and v['sig'] == body['expect']['signature']:
        print('VIOLATION property=%s replay=%s' % (prop, args.replay)); print('  reproduced: %s %s' % (v['sig'], v['detail'])); return 1
    if v:
        print('VIOLATION property=%s replay=%s' % (v['prop'], args.replay)); print('  DIFFERENT violation: %s %s' % (v['sig'], v['detail'])); return 1
    print('[replay] plan executed, no violation (log hash %s)' % r1['log_hash']); return 0


RULES = {
    'fenv': 'one case = (macro set, vector type, operation, ambient env rc/ftz/daz, input class of operand a, input class of operand b); '
            'non-trivial when the ambient rounding mode is not round-to-nearest or operand a is in a special class '
            '(zero, subnormal, tie, near-tie, near-integer, half, 2^23/2^52 neighbourhood, huge, inf, NaN); counted with a hash set over all workers',
    'heap': 'one case = (implementation, sizeof T, A, n mod 16 class, std::align offset class, tail placement, reuse?, live-set bucket, op kind, preempted-inside?); '
            'non-trivial when the block was written in full and another block was live; counted with a hash set over all workers',
    'mem': 'one case = (macro set, type, op, n, placement kind, distance to boundary, protection kind and side, fault kind, alignment residue); '
           'non-trivial when a protection, watch window or neighbour write was adjacent to the addressed range and 0<n<width (or inactive gather/scatter lanes, '
           'or for C20 the pointer range intersects a non-RW page); counted with a hash set over all workers',
}


def write_evidence(prop, engine, args, agg, wall, nviol, known_ids, problems, rev):
    os.makedirs(os.path.join(VERIF, 'evidence'), exist_ok=True)
    samples = agg['samples'] or [{'note': 'no sample emitted'}]
    ev = {
        'property_id': prop, 'tier': args.tier, 'seed': args.seed, 'level': 'exploration',
        'coverage': {
            'evaluations': int(agg['steps']),
            'evaluations_unit': 'plan steps (one real AVEL operation or environment jump each, every oracle applied afterwards); see simulated_runs for whole runs',
            'simulated_runs': int(agg['runs']),
            'distinct_nontrivial': len(agg['distinct']),
            'rule': RULES[engine],
            'samples': samples,
            'exhaustive': False,
            'steps_total': int(agg['steps']),
            'sweep_runs': int(agg['sweep_runs']),
            'sweep_note': 'sweep plans enumerate every (operation, type, mode/placement) combination of the engine once per configuration; they are a floor under the seeded search, which is sampled',
            'seeded_runs': int(agg['runs'] - agg['sweep_runs']),
            'runs_per_hour': int(agg['runs'] / max(wall, 1e-3) * 3600),
            'simulated_time': 'n/a - AVEL has no clock, timers or I/O; logical steps are reported instead',
            'faults_fired': dict(agg['faults']),
            'probes': dict(agg['probes']),
            'observations_logged_not_judged': dict(agg['obs']),
            'determinism_pairs_checked': int(agg['gate_pairs']),
            'configs': agg['configs'],
            'engine_extra': agg['extra'],
            'raw_violating_runs': int(agg['violations_raw']),
            'violations_of_other_properties_seen': dict(agg['other_prop']),
            'known_findings_seen': known_ids,
            'harness_problems': problems,
            'real_vs_stub': REAL_VS_STUB[engine],
            'repo_rev': rev,
        },
        'assumptions': ASSUMPTIONS[engine],
        'wall_s': round(wall, 2),
        'violations': nviol,
    }
    json.dump(ev, open(os.path.join(VERIF, 'evidence', prop + '.json'), 'w'), indent=1)


REAL_VS_STUB = {
    'fenv': {'real': ['AVEL headers compiled per configuration', 'CPU SSE/AVX/AVX-512 units and MXCSR/x87 control registers', 'glibc libm (reference)'],
             'stub': ['nothing is stubbed; the simulator owns only the ambient FP control state between operations']},
    'heap': {'real': ['avel::Aligned_allocator (three implementations)', 'libstdc++ vector/list/allocator_traits', 'std::align'],
             'stub': ['C heap (malloc/free/calloc/realloc/posix_memalign/aligned_alloc) replaced by SimHeap via -Wl,--wrap while an AVEL call is on the stack']},
    'mem': {'real': ['AVEL headers compiled per configuration', 'CPU, MMU page protections, debug registers, trap flag'],
            'stub': ['nothing is stubbed; the simulator owns the page map, buffer placement, stale stack/register contents and the neighbour writer']},
}
ASSUMPTIONS = {
    'fenv': ['x86-64 only (ARM/NEON branches cannot run here)', 'glibc libm is correct in all four rounding modes (self-checked at start-up against an integer model on the stratified inputs)',
             'inputs are stratified samples + seeded random bit patterns, not the exhaustive 2^32 quantifier of C11'],
    'heap': ['glibc-compatible _mm_malloc (posix_memalign based)', 'x86-64, GCC 12 / Clang 14'],
    'mem': ['x86-64 only', 'data-breakpoint behaviour of masked SIMD elements calibrated on this CPU'],
}

if __name__ == '__main__':
    sys.exit(main())

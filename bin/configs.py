"""Build-configuration table (DESIGN 2.2).  A configuration is
(compiler, -std, AVEL macro set + matching -m flags, optimisation, force-inline)."""

FULL_DEFS = ['AVEL_AVX512VL', 'AVEL_AVX512BW', 'AVEL_AVX512DQ', 'AVEL_AVX512CD', 'AVEL_AVX512VBMI',
             'AVEL_AVX512VBMI2', 'AVEL_AVX512BITALG', 'AVEL_AVX512VPOPCNTDQ', 'AVEL_GFNI']
FULL_FLAGS = ['-mavx512f', '-mavx512vl', '-mavx512bw', '-mavx512dq', '-mavx512cd', '-mavx512vbmi',
              '-mavx512vbmi2', '-mavx512bitalg', '-mavx512vpopcntdq', '-mgfni', '-mfma', '-mavx2', '-mpopcnt']
F = ['-mavx512f', '-mavx2', '-mfma', '-mpopcnt']

MACROSETS = {
    'none':    ([], []),
    'X86':     (['AVEL_X86'], []),
    'SCALAR':  (['AVEL_POPCNT', 'AVEL_LZCNT', 'AVEL_BMI', 'AVEL_BMI2'], ['-mpopcnt', '-mlzcnt', '-mbmi', '-mbmi2']),
    'SSE2':    (['AVEL_SSE2'], ['-msse2']),
    'SSE3':    (['AVEL_SSE3'], ['-msse3']),
    'SSSE3':   (['AVEL_SSSE3'], ['-mssse3']),
    'SSE4_1':  (['AVEL_SSE4_1'], ['-msse4.1']),
    'SSE4_2':  (['AVEL_SSE4_2'], ['-msse4.2', '-mpopcnt']),
    'AVX':     (['AVEL_AVX'], ['-mavx', '-mpopcnt']),
    'AVX2':    (['AVEL_AVX2'], ['-mavx2', '-mpopcnt']),
    'FMA':     (['AVEL_FMA'], ['-mfma', '-mavx', '-mpopcnt']),
    'AVX2_FMA_BMI': (['AVEL_AVX2', 'AVEL_FMA', 'AVEL_BMI2', 'AVEL_LZCNT'], ['-mavx2', '-mfma', '-mpopcnt', '-mbmi', '-mbmi2', '-mlzcnt']),
    'AVX512F': (['AVEL_AVX512F'], F),
    'F_VL':    (['AVEL_AVX512VL'], F + ['-mavx512vl']),
    'F_BW':    (['AVEL_AVX512BW'], F + ['-mavx512bw']),
    'F_DQ':    (['AVEL_AVX512DQ'], F + ['-mavx512dq']),
    'F_VL_BW': (['AVEL_AVX512VL', 'AVEL_AVX512BW'], F + ['-mavx512vl', '-mavx512bw']),
    'F_VL_DQ': (['AVEL_AVX512VL', 'AVEL_AVX512DQ'], F + ['-mavx512vl', '-mavx512dq']),
    'F_VL_BW_DQ_CD': (['AVEL_AVX512VL', 'AVEL_AVX512BW', 'AVEL_AVX512DQ', 'AVEL_AVX512CD'], F + ['-mavx512vl', '-mavx512bw', '-mavx512dq', '-mavx512cd']),
    'full':    (FULL_DEFS, FULL_FLAGS),
    # (AVEL_AVX10_1 alone - 128/256-bit AVX-512 forms without the 512-bit types - does not compile on the pinned tree with
    #  either compiler: mask types mix __mmask and __m256i primitives.  It is therefore not a supported configuration and not listed.)
    # AVEL_AUTO_DETECT: the macro set is derived by impl/Detect_capabilities.hpp from the compiler's own target macros
    'AUTO_x86_64':  (['AVEL_AUTO_DETECT'], ['-march=x86-64']),
    'AUTO_nehalem': (['AVEL_AUTO_DETECT'], ['-march=nehalem']),
    'AUTO_haswell': (['AVEL_AUTO_DETECT'], ['-march=haswell']),
    'AUTO_skx':     (['AVEL_AUTO_DETECT'], ['-march=skylake-avx512']),
    'AUTO_icx':     (['AVEL_AUTO_DETECT'], ['-march=icelake-server']),
}
ORDER = ['none', 'X86', 'SCALAR', 'SSE2', 'SSE3', 'SSSE3', 'SSE4_1', 'SSE4_2', 'AVX', 'AVX2', 'FMA', 'AVX2_FMA_BMI',
         'AVX512F', 'F_VL', 'F_BW', 'F_DQ', 'F_VL_BW', 'F_VL_DQ', 'F_VL_BW_DQ_CD', 'full',
         'AUTO_x86_64', 'AUTO_nehalem', 'AUTO_haswell', 'AUTO_skx', 'AUTO_icx']


def mk(cxx, std, mset, opt='-O2', finl=False, san=False, extra_defs=()):
    defs, flags = MACROSETS[mset]
    defs = list(defs) + list(extra_defs)
    if finl:
        defs = defs + ['AVEL_FORCE_INLINE']
    cid = '%s-%s-%s-%s%s%s' % ('gxx' if cxx == 'g++' else 'clang', std, mset, opt.lstrip('-'),
                               '-finl' if finl else '', '-san' if san else '')
    for d in extra_defs:
        cid += '-' + d.replace('=', '_')
    return {'id': cid, 'cxx': cxx, 'std': std, 'mset': mset, 'defs': defs, 'flags': list(flags),
            'opt': opt, 'finl': finl, 'san': san}


def _knob(cid_seed, n):
    # deterministic per-configuration "random" knob (tuning knobs are varied per build, DESIGN 2.2)
    import zlib
    return zlib.crc32(cid_seed.encode()) % n


def vector_configs(tier, seed=1):
    """Configurations for engines that exercise vector code (mem, fenv)."""
    if tier == 'quick':
        # one configuration per macro that selects many distinct preprocessor branches (SSE2, SSSE3, SSE4.1, AVX, AVX2, AVX-512 F / VL / BW / DQ)
        # plus both compilers below SSE4.1 and two UNOPTIMISED GCC builds (code as written: no folding of redundant loads, undefined
        # values stay undefined) - independently seeded changes c08e, c09f and c11e showed that these dimensions matter
        return [mk('g++', 'c++11', 'none'), mk('g++', 'c++11', 'SSE2'), mk('clang++', 'c++14', 'SSSE3', finl=True), mk('g++', 'c++17', 'SSE4_2'),
                mk('clang++', 'c++17', 'AVX'), mk('g++', 'c++11', 'AVX2'), mk('g++', 'c++17', 'AVX2', opt='-O0'), mk('clang++', 'c++14', 'AVX512F', finl=True),
                mk('g++', 'c++20', 'F_VL'), mk('g++', 'c++14', 'F_BW'), mk('g++', 'c++14', 'F_VL_BW', opt='-O0', finl=True), mk('g++', 'c++11', 'full'),
                mk('g++', 'c++14', 'AUTO_haswell')]           # macro set derived by Detect_capabilities.hpp (AVX2+FMA+BMI/BMI2/LZCNT/POPCNT)
    out = vector_configs('quick', seed)          # the thorough tier is a superset of the quick tier
    stds = ['c++11', 'c++14', 'c++17', 'c++20']
    for cxx in ('g++', 'clang++'):
        for ms in ORDER:
            k = _knob('%s/%s/%d' % (cxx, ms, seed), 16)
            out.append(mk(cxx, stds[k % 4], ms, opt='-O0' if (k >> 2) % 4 == 0 else '-O2', finl=bool((k >> 3) & 1) or (k >> 2) % 4 == 0))
    seen, uniq = set(), []
    for c in out:
        if c['id'] not in seen:
            seen.add(c['id']); uniq.append(c)
    return uniq


def fenv_configs(tier, seed=1):
    """SimFenv runs are cheap (the cost of a configuration is its compilation), so the float engine samples the
    (macro set x compiler x standard x optimisation) space more densely than SimMem can afford."""
    out = vector_configs(tier, seed)
    out += [mk('clang++', 'c++11', 'SSE2'), mk('g++', 'c++20', 'SSE4_1', opt='-O0'), mk('clang++', 'c++20', 'AVX2'), mk('g++', 'c++17', 'F_VL_DQ'),
            mk('clang++', 'c++11', 'full', opt='-O0'), mk('clang++', 'c++17', 'none', opt='-O0')]
    seen, uniq = set(), []
    for c in out:
        if c['id'] not in seen:
            seen.add(c['id']); uniq.append(c)
    return uniq


def heap_configs(tier, seed=1):
    if tier == 'quick':
        return [mk('g++', 'c++11', 'none'), mk('g++', 'c++17', 'none'), mk('g++', 'c++11', 'SSE2'),
                mk('clang++', 'c++11', 'none'), mk('g++', 'c++14', 'none', opt='-O0'), mk('clang++', 'c++17', 'SSE2', opt='-O0'),
                mk('clang++', 'c++20', 'none', opt='-O1', san=True), mk('clang++', 'c++14', 'none', opt='-O1', san=True),
                # x86 scalar-feature macros define AVEL_X86 but not AVEL_SSE: the allocator must pick the same implementation in
                # allocate() and deallocate() there too (independently seeded change c18m)
                mk('g++', 'c++14', 'SCALAR'), mk('clang++', 'c++11', 'X86', opt='-O0')]
    out = heap_configs('quick', seed)
    out += [mk(cxx, std, ms, opt=o) for cxx, std, ms, o in (('g++', 'c++11', 'X86', '-O2'), ('g++', 'c++17', 'SCALAR', '-O0'), ('clang++', 'c++14', 'SCALAR', '-O2'), ('clang++', 'c++20', 'X86', '-O2'))]
    for cxx in ('g++', 'clang++'):
        for std in ('c++11', 'c++14', 'c++17', 'c++20'):
            for ms in ('none', 'SSE2', 'AVX2'):
                for san in (False, True):
                    if san and cxx == 'g++':
                        continue
                    k = _knob('%s/%s/%s/%d' % (cxx, std, ms, seed), 4)
                    out.append(mk(cxx, std, ms, opt=('-O0' if k == 0 else '-O1') if san else ('-O0' if k == 0 else '-O2'), san=san))
    out += [mk('g++', 'c++11', 'AUTO_x86_64'), mk('clang++', 'c++17', 'AUTO_haswell'), mk('g++', 'c++20', 'AUTO_icx', opt='-O0')]
    seen, uniq = set(), []
    for c in out:
        if c['id'] not in seen:
            seen.add(c['id']); uniq.append(c)
    return uniq


def prefetch_configs(tier, seed=1):
    """C20: builds with and without AVEL_SSE (the only macro Cache.hpp looks at besides the compiler), GCC and Clang,
    -O0/-O2, and cache-line-size macro variants (they change the loop stride)."""
    L = ('AVEL_L1_CACHE_LINE_SIZE=32', 'AVEL_L2_CACHE_LINE_SIZE=128', 'AVEL_L3_CACHE_LINE_SIZE=256')
    if tier == 'quick':
        # incl. the x86 scalar-feature sets that define AVEL_X86 without any SSE level (Cache.hpp's second preprocessor dimension)
        return [mk('g++', 'c++11', 'none'), mk('g++', 'c++11', 'SSE2'), mk('g++', 'c++17', 'AVX2'), mk('g++', 'c++20', 'full'),
                mk('clang++', 'c++14', 'none', opt='-O0'), mk('clang++', 'c++11', 'SSE4_2', extra_defs=L), mk('g++', 'c++14', 'none', extra_defs=L, finl=True),
                mk('g++', 'c++14', 'SCALAR', opt='-O0'), mk('clang++', 'c++20', 'X86')]
    # Cache.hpp looks only at the compiler, AVEL_SSE (implied by every SSE..AVX-512 macro), AVEL_X86 and the line-size macros:
    # the thorough list crosses those dimensions instead of walking the whole vector macro lattice
    out = prefetch_configs('quick', seed)
    stds = ['c++11', 'c++14', 'c++17', 'c++20']
    for cxx in ('g++', 'clang++'):
        for i, ms in enumerate(('none', 'X86', 'SCALAR', 'SSE2', 'SSE4_2', 'AVX', 'AVX2', 'AVX512F', 'full')):
            for o in ('-O0', '-O2'):
                out.append(mk(cxx, stds[(i + (o == '-O2')) % 4], ms, opt=o, finl=(i % 2 == 1)))
    out += [mk(cxx, 'c++11', ms, opt=o, extra_defs=L) for cxx in ('g++', 'clang++') for ms in ('none', 'SSE2', 'full') for o in ('-O0', '-O2')]
    out += [mk('g++', 'c++11', 'AUTO_x86_64'), mk('clang++', 'c++14', 'AUTO_haswell', opt='-O0'), mk('clang++', 'c++20', 'AUTO_icx')]
    seen, uniq = set(), []
    for c in out:
        if c['id'] not in seen:
            seen.add(c['id']); uniq.append(c)
    return uniq

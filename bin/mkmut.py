#!/usr/bin/env python3
"""Helper used while developing: builds /verif/mutants/<PROP>/<name>.patch from (file, old, new) edits
against /repo's current headers.  The patches are what is kept; this script is only their provenance."""
import difflib, os, sys
REPO = '/repo'
def make(prop, name, edits, desc, configs=None, runs=None):
    out = ['# property: %s' % prop, '# what: %s' % desc]
    if configs: out.append('# configs: %s' % configs)
    if runs: out.append('# runs: %s' % runs)
    by_file = {}
    for f, old, new in edits:
        by_file.setdefault(f, []).append((old, new))
    for f, lst in by_file.items():
        src = open(os.path.join(REPO, f)).read(); dst = src
        for old, new in lst:
            assert dst.count(old) == 1, (name, f, dst.count(old), old[:70])
            dst = dst.replace(old, new)
        d = difflib.unified_diff(src.splitlines(True), dst.splitlines(True), 'a/' + f, 'b/' + f, n=3)
        out.append(''.join(d).rstrip('\n'))
    os.makedirs('/verif/mutants/%s' % prop, exist_ok=True)
    open('/verif/mutants/%s/%s.patch' % (prop, name), 'w').write('\n'.join(out) + '\n')
    print('wrote', prop, name)

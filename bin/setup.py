#!/usr/bin/env python3
"""Build the configuration-independent harness objects of every engine (offline, from files on disk)."""
import os, sys
sys.path.insert(0, os.path.dirname(os.path.abspath(__file__)))
import check
for eng in check.ENGINES:
    d = os.path.join(check.VERIF, check.ENGINES[eng]['dir'])
    if all(os.path.exists(os.path.join(d, s[0])) for s in check.ENGINES[eng]['common']):
        check.build_common(eng); print('setup: built common objects of', eng)
    else:
        print('setup: engine', eng, 'not present yet')

#!/usr/bin/env python3
"""Determinism experiment (DESIGN 2.6): for every claimed property, several batch seeds and a few
configurations, execute the same run indices (seeded plans and a slice of the sweep plans) three
times - with 16, 3 and 1 worker processes - and require identical per-run log hashes.  A difference
is a harness defect (it would break replay and minimisation), never a property violation.
Results: /verif/evidence/determinism.json (informational, not one of the schema-bound files).

usage: determinism.py [--runs N] [--seeds 1,2,3] [--props C08,...]
"""
import argparse, concurrent.futures as cf, json, os, sys, time
HERE = os.path.dirname(os.path.abspath(__file__)); sys.path.insert(0, HERE)
import check as K

CFG_PICK = {'mem': ['gxx-c++11-SSE2-O2', 'gxx-c++11-full-O2', 'clang-c++14-AVX512F-O2-finl'], 'fenv': ['gxx-c++11-SSE2-O2', 'gxx-c++11-full-O2'],
            'heap': ['gxx-c++11-none-O2', 'gxx-c++17-none-O2', 'clang-c++14-none-O1-san']}


def hashes(binp, prop, seed, count, nworkers, sweep_stride):
    def one(s):
        a = ['--gen', '--prop', prop, '--tier', 'quick', '--seed', str(seed), '--count', str(count), '--hashes', '--no-sweep', '--start', str(s), '--stride', str(nworkers)]
        rc, out, err = K.run_worker(binp, a, 3600)
        b = ['--gen', '--prop', prop, '--tier', 'quick', '--seed', str(seed), '--hashes', '--sweep-only', '--start', str(s * sweep_stride), '--stride', str(nworkers * sweep_stride)]
        rc2, out2, err2 = K.run_worker(binp, b, 3600)
        r = K.parse_lines(out); r2 = K.parse_lines(out2)
        if not r.get('Z') or not r2.get('Z'):
            raise RuntimeError('worker died: ' + err[-300:] + err2[-300:])
        return [('s', i, h) for i, h in r.get('H', [])] + [('w', i, h) for i, h in r2.get('H', [])]
    with cf.ThreadPoolExecutor(max_workers=16) as ex:
        res = list(ex.map(one, range(nworkers)))
    return {(k, i): h for l in res for k, i, h in l}


def main():
    ap = argparse.ArgumentParser(); ap.add_argument('--runs', type=int, default=1500); ap.add_argument('--seeds', default='1,2,3,4,5'); ap.add_argument('--props', default='C08,C09,C20,C10,C11,C18')
    a = ap.parse_args(); out = {'pairs_compared': 0, 'differences': 0, 'cases': []}; t0 = time.time()
    os.makedirs(os.path.join(K.BUILD, 'tmp'), exist_ok=True)
    for prop in a.props.split(','):
        eng = K.ENGINE_OF[prop]; E = K.ENGINES[eng]; common = K.build_common(eng)
        cfgs = [c for c in E.get('configs_by_prop', {}).get(prop, E['configs'])('quick', 1) if c['id'] in CFG_PICK[eng]] or E['configs']('quick', 1)[:2]
        for c in cfgs:
            binp, cmds, log = K.build_config(eng, c, '/repo', common)
            if not binp:
                print('build failed', c['id']); return 2
            for seed in [int(x) for x in a.seeds.split(',')]:
                ref = None
                for nw in (16, 3, 1):
                    h = hashes(binp, prop, seed, a.runs, nw, 37)
                    if ref is None:
                        ref = h
                    else:
                        diff = [k for k in sorted(set(ref) | set(h)) if ref.get(k) != h.get(k)]
                        out['pairs_compared'] += len(ref); out['differences'] += len(diff)
                        if diff:
                            print('DIFFERENCE', prop, c['id'], 'seed', seed, 'workers', nw, diff[:5])
                out['cases'].append({'property': prop, 'config': c['id'], 'batch_seed': seed, 'runs_each': len(ref), 'worker_counts': [16, 3, 1]})
                print(prop, c['id'], 'seed', seed, 'runs', len(ref), 'ok' if not out['differences'] else 'DIFF'); sys.stdout.flush()
    out['wall_s'] = round(time.time() - t0, 1)
    json.dump(out, open(os.path.join(K.VERIF, 'evidence', 'determinism.json'), 'w'), indent=1)
    print('pairs compared', out['pairs_compared'], 'differences', out['differences'])
    return 1 if out['differences'] else 0


if __name__ == '__main__':
    sys.exit(main())

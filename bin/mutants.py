#!/usr/bin/env python3
"""Sensitivity runner (DESIGN 2.6): applies each realistic AVEL change (own mutants under
/verif/mutants/<PROP>/*.patch, independently written ones under /verif/seeded/<id>/patch.diff)
to a scratch copy of /repo's headers OUTSIDE /repo and /verif, runs the registered quick check of
the property against that copy and expects `VIOLATION property=<PROP>`.  The scratch copy is
removed afterwards.  Not part of the registered commands; results are recorded in
/verif/mutants/RESULTS.json and DESIGN.md.

usage: mutants.py [--only SUBSTR] [--tier quick] [--jobs-seq]
"""
import argparse, glob, json, os, re, shutil, subprocess, sys, tempfile, time

HERE = os.path.dirname(os.path.abspath(__file__)); VERIF = os.path.dirname(HERE)


def header(path):
    h = {}
    for line in open(path, errors='replace'):
        m = re.match(r'#\s*(\w+):\s*(.*)', line)
        if m:
            h[m.group(1)] = m.group(2).strip()
        elif line.startswith(('diff ', '--- ', 'Index')):
            break
    return h


def collect(only):
    items = []
    for p in sorted(glob.glob(os.path.join(VERIF, 'mutants', '*', '*.patch'))):
        h = header(p); prop = h.get('property') or os.path.basename(os.path.dirname(p))
        items.append({'id': 'mutants/%s/%s' % (prop, os.path.basename(p)[:-6]), 'patch': p, 'property': prop, 'configs': h.get('configs'), 'runs': h.get('runs'), 'tier': h.get('tier')})
    for d in sorted(glob.glob(os.path.join(VERIF, 'seeded', '*'))):
        mp = os.path.join(d, 'meta.json'); pp = os.path.join(d, 'patch.diff')
        if os.path.exists(mp) and os.path.exists(pp):
            m = json.load(open(mp))
            items.append({'id': 'seeded/' + os.path.basename(d), 'patch': pp, 'property': m.get('check_property') or m['property'], 'seeded_for': m['property'], 'configs': m.get('check_configs'), 'runs': m.get('check_runs')})
    if only:
        items = [i for i in items if only in i['id']]
    return items


def run_one(item, tier, repo='/repo'):
    scratch = tempfile.mkdtemp(prefix='verif_mut_', dir='/tmp')
    try:
        shutil.copytree(os.path.join(repo, 'include'), os.path.join(scratch, 'include'))
        r = subprocess.run(['git', 'apply', '--unsafe-paths', '--directory=' + scratch, item['patch']], cwd=scratch, capture_output=True, text=True)
        if r.returncode != 0:
            r = subprocess.run(['patch', '-p1', '-s', '-d', scratch, '-i', item['patch']], capture_output=True, text=True)
            if r.returncode != 0:
                return {'id': item['id'], 'status': 'PATCH-DOES-NOT-APPLY', 'detail': (r.stdout + r.stderr)[-400:]}
        cmd = [sys.executable, os.path.join(HERE, 'check.py'), item['property'], '--tier', item.get('tier') or tier, '--repo', scratch, '--no-evidence']
        if item.get('configs'):
            cmd += ['--configs', item['configs']]
        if item.get('runs'):
            cmd += ['--runs', str(item['runs'])]
        t0 = time.time()
        r = subprocess.run(cmd, cwd=VERIF, capture_output=True, text=True)
        viol = [l for l in r.stdout.splitlines() if l.startswith('VIOLATION property=' + item['property'])]
        first = ''
        lines = r.stdout.splitlines()
        for i, l in enumerate(lines):
            if l.startswith('VIOLATION property=' + item['property']) and i + 1 < len(lines):
                first = lines[i + 1].strip()[:300]; break
        status = 'CAUGHT' if (r.returncode == 1 and viol) else ('HARNESS-PROBLEM' if r.returncode == 2 else 'MISSED')
        return {'id': item['id'], 'property': item['property'], 'seeded_for': item.get('seeded_for', item['property']), 'status': status, 'rc': r.returncode, 'violations': len(viol), 'first': first,
                'wall_s': round(time.time() - t0, 1), 'tail': '' if status == 'CAUGHT' else r.stdout[-1500:]}
    finally:
        import hashlib
        shutil.rmtree(os.path.join(VERIF, 'build', 'alt-' + hashlib.sha1(os.path.realpath(scratch).encode()).hexdigest()[:10]), ignore_errors=True)
        shutil.rmtree(scratch, ignore_errors=True)


def main():
    ap = argparse.ArgumentParser(); ap.add_argument('--only'); ap.add_argument('--tier', default='quick'); ap.add_argument('--no-record', action='store_true'); ap.add_argument('--update', action='store_true', help='with --only: replace the matching entries of RESULTS.json')
    a = ap.parse_args()
    items = collect(a.only); res = []
    for it in items:
        r = run_one(it, a.tier); res.append(r)
        print('%-48s %-8s %s %s' % (r['id'], r['status'], r.get('wall_s', ''), r.get('first', r.get('detail', ''))[:160])); sys.stdout.flush()
        if r['status'] != 'CAUGHT':
            print('    ' + r.get('tail', '').replace('\n', '\n    ')[-1200:])
    if a.update and a.only:
        rp = os.path.join(VERIF, 'mutants', 'RESULTS.json'); cur = json.load(open(rp))
        new = {r['id']: {k: v for k, v in r.items() if k != 'tail'} for r in res}
        cur['results'] = [new.pop(x['id'], x) for x in cur['results']] + list(new.values())
        json.dump(cur, open(rp, 'w'), indent=1)
    if not a.no_record and not a.only:
        json.dump({'tier': a.tier, 'results': [{k: v for k, v in r.items() if k != 'tail'} for r in res]}, open(os.path.join(VERIF, 'mutants', 'RESULTS.json'), 'w'), indent=1)
    missed = [r for r in res if r['status'] != 'CAUGHT']
    print('%d/%d caught' % (len(res) - len(missed), len(res)))
    return 1 if missed else 0


if __name__ == '__main__':
    sys.exit(main())

#!/usr/bin/env python3
"""False-alarm hunt: runs the quick check of every claimed property under several batch seeds on the
UNCHANGED tree; any exit status other than 0 is printed with the tail of the output."""
import subprocess, sys, os, time
HERE = os.path.dirname(os.path.abspath(__file__)); VERIF = os.path.dirname(HERE)
seeds = [int(x) for x in (sys.argv[1] if len(sys.argv) > 1 else '2,3,4,5,6').split(',')]
props = (sys.argv[2] if len(sys.argv) > 2 else 'C10,C11,C18,C20,C08,C09').split(',')
bad = 0
for sd in seeds:
    for p in props:
        t0 = time.time()
        r = subprocess.run([sys.executable, os.path.join(HERE, 'check.py'), p, '--tier', 'quick', '--seed', str(sd), '--no-evidence'], cwd=VERIF, capture_output=True, text=True)
        last = r.stdout.strip().splitlines()[-1] if r.stdout.strip() else ''
        print('seed', sd, p, 'rc', r.returncode, '%.0fs' % (time.time() - t0), last[:160]); sys.stdout.flush()
        if r.returncode != 0:
            bad += 1; print(r.stdout[-3000:]); print(r.stderr[-1000:])
print('non-zero exits:', bad)
sys.exit(1 if bad else 0)
